#!/usr/bin/env python3
"""Regenerates MANIFEST.json from lib/props.py (claimed checks) and lib/not_applicable.py."""
import json
import os
import sys

VERIF = os.path.dirname(os.path.dirname(os.path.abspath(__file__)))
sys.path.insert(0, os.path.join(VERIF, "lib"))
import props  # noqa: E402
import not_applicable  # noqa: E402

all_ids = [json.loads(l)["id"] for l in open(os.path.join(VERIF, "properties.jsonl"))]
checks = []
for pid in all_ids:
    spec = props.PROPS.get(pid)
    if not spec:
        continue
    checks.append({
        "property_id": pid,
        "quick_cmd": "./check %s --tier quick" % pid,
        "thorough_cmd": "./check %s --tier thorough" % pid,
        "evidence_file": "evidence/%s.json" % pid,
        "replay_cmd_template": "./check %s --replay {path}" % pid,
        "engine": "kani-cbmc",
        "level_claimed": {
            "category": "model_checking",
            "text": spec["level_text"],
            "design_ref": spec.get("design_ref", "DESIGN.md §4"),
        },
        "level_note": spec["level_note"],
        "technique": spec.get("technique", "bounded model checking of the real Rust code with Kani/CBMC (SAT), symbolic inputs, unwinding assertions, native replay of counterexamples"),
    })
na = []
for pid in all_ids:
    if pid in props.PROPS:
        continue
    na.append({"property_id": pid, "reason": not_applicable.REASONS[pid]})
manifest = {
    "version": 1,
    "setup_cmd": "./setup.sh",
    "hooks": {
        "guard": "rust_lang_chalk_verif",
        "enable": "none needed: harnesses reach private items through shadow copies of the crate sources regenerated from /repo on every run (lib/shadow.py); the guard name is reserved and unused",
        "baseline_off_cmd": "cd /repo && cargo test --workspace --no-fail-fast --offline",
        "source_commits": [],
        "add_only": True,
    },
    "engines": [
        {
            "name": "kani-cbmc",
            "path": "lib/driver.py",
            "serves_properties": [c["property_id"] for c in checks],
            "kind_free_text": "Kani 0.68 / CBMC 6.11 (cadical): #[kani::proof] harnesses over the real chalk source, "
                              "monomorphised at the VInterner instantiation (harness/vinterner); counterexamples replayed natively",
        }
    ],
    "checks": checks,
    "not_applicable": na,
    "notes": "Exit codes of every check: 0 held within the stated bounds, 1 violation (replayed natively), 2 inconclusive "
             "(timeout, OOM, failed unwinding assertion, unsatisfied cover witness, compile error) - never reported as a pass.",
}
with open(os.path.join(VERIF, "MANIFEST.json"), "w") as fh:
    json.dump(manifest, fh, indent=1)
print("checks:", [c["property_id"] for c in checks], "not_applicable:", len(na))
