import os
"""Per-property specification of the checks: which harness crates ("units"), which harness files,
and the text that goes into the evidence (claim, bounds, assumptions, stubs, what is outside)."""

IR_UNIT = {
    "name": "ir",
    "kind": "external",
    "dir": "harness/ir",
    "files": ["harness/ir/src/c18.rs"],
    "modules": {"harness/ir/src/c18.rs": "c18"},
}

VINTERNER_TB = [
    "VInterner (harness/vinterner): the Interner instantiation under which the generic chalk code "
    "is verified; static typed arenas, structural equality",
]

ENGINE_SHADOW = {
    "name": "chalk-engine",
    "crate": "chalk-engine",
    "cargo_toml": "harness/shadow/chalk-engine.Cargo.toml",
    "appends": {
        "src/slg.rs": [("harness/engine/c17_inval.rs", "verif_c17_inval")],
        "src/slg/aggregate.rs": [("harness/engine/c17_anti.rs", "verif_c17_anti")],
    },
}


def engine_unit(*files, modules=None):
    return {
        "name": "engine",
        "kind": "shadow",
        "shadow": ENGINE_SHADOW,
        "files": list(files),
        "modules": modules or {},
    }


IR_SHADOW = {
    "name": "chalk-ir",
    "crate": "chalk-ir",
    "cargo_toml": "harness/shadow/chalk-ir.Cargo.toml",
    "appends": {
        "src/fold/in_place.rs": [("harness/irshadow/c27.rs", "verif_c27")],
    },
}


SOLVE_SHADOW = {
    "name": "chalk-solve",
    "crate": "chalk-solve",
    "cargo_toml": "harness/shadow/chalk-solve.Cargo.toml",
    "appends": {
        "src/infer/unify.rs": [("harness/solveshadow/c29_unify.rs", "verif_c29_unify")],
    },
}


def solveshadow_unit(*files, modules=None):
    return {
        "name": "solveshadow",
        "kind": "shadow",
        "shadow": SOLVE_SHADOW,
        "files": list(files),
        "modules": modules or {},
    }


def irshadow_unit(*files, modules=None):
    return {
        "name": "irshadow",
        "kind": "shadow",
        "shadow": IR_SHADOW,
        "files": list(files),
        "modules": modules or {},
    }


def solve_unit(*files):
    return {
        "name": "solve",
        "kind": "external",
        "dir": "harness/solve",
        "files": list(files),
        "modules": {f: os.path.splitext(os.path.basename(f))[0] for f in files},
    }


def ir_unit(*files):
    return dict(IR_UNIT, files=list(files),
                modules={f: os.path.splitext(os.path.basename(f))[0].replace("_classes", "") for f in files})


PROPS = {
    "C28": {
        "units": [ir_unit("harness/ir/src/c28.rs")],
        "claim": "UCanonical::trivial_substitution (what both solvers return for 'holds for every value of the "
                 "unknowns' and for floundered answers) has exactly one entry per unknown of the query, of the unknown's "
                 "kind, referring to that unknown only; Substitution::is_identity_subst and "
                 "UCanonical::is_trivial_substitution coincide with that definition for arbitrary variable entries.",
        "bounds": "queries with three unknowns; kinds (general / integer type, lifetime, const) fixed per query - thorough "
                  "tier: all 64 kind triples -, "
                  "universes and the (depth, index) of every entry symbolic at full width; unwind 8",
        "outside": "that the SOLVERS return such substitutions for every program and goal (root_answer, Fulfill::solve, "
                   "make_solution run the engines and the inference table; DESIGN.md §4.1, P30); universes of returned "
                   "answers (map_from_canonical is covered under C16)",
        "assumptions": [],
        "stubs": [],
        "trusted_base": VINTERNER_TB,
        "harness_note_default": "arity / kind / scope of the trivial substitution; exactness of is_identity_subst",
        "level_text": "Bounded model checking (Kani/CBMC) of the real constructors and predicates for the solution "
                      "shape; partial with respect to the property (no solver run).",
        "level_note": "Trusted: Kani/CBMC; VInterner.",
        "design_ref": "DESIGN.md §4.7",
    },
    "C29": {
        "units": [ir_unit("harness/ir/src/c29.rs"),
                  solveshadow_unit("harness/solveshadow/c29_unify.rs",
                                   modules={"harness/solveshadow/c29_unify.rs": "infer::unify::verif_c29_unify"})],
        "claim": "(1) The variance machinery every relater goes through: Variance::xform is the sign product and invert "
                 "the negation (all 27 triples); Zipper::zip_substs relates position i at ambient.xform(declared[i]) "
                 "(Invariant when nothing is declared), each pair once and in order, for all ambient / declared "
                 "variances; Zip for FnSubst relates parameters contravariantly and the return type covariantly. "
                 "(2) The unifier's own steps (chalk-solve/src/infer/unify.rs, private, in a shadow copy of chalk-solve): "
                 "Unifier::relate_lifetime_lifetime + unify_lifetime_var + push_lifetime_outlives_goals for all 6 x 6 kinds of "
                 "lifetime pairs (unbound unknown, unknown bound to a placeholder, placeholder, 'static, erased, error) return "
                 "exactly the outlives requirements the variance dictates, bind an unknown instead only at invariant variance "
                 "and only to a value its universe can name, and demand nothing of equal or error lifetimes; "
                 "Unifier::relate_ty_ty on references (&/&mut, all mutability pairs) relates exactly when mutability and pointee "
                 "agree and returns 'a: 'b for &'a T <: &'b T (converse when contravariant, both when invariant); on Adt / FnDef "
                 "with one declared variance from the unification database (symbolic) it returns the requirements of the sign "
                 "product of ambient and declared variance.",
        "bounds": "argument lists [ty, lifetime, ty]; three declared variances; fn(T0, T1) -> T2; all variance values symbolic; "
                  "unifier steps: one lifetime pair per query, universes 0..7 symbolic, placeholder indices symbolic, pointee "
                  "Foreign(id) with symbolic ids, one lifetime argument per Adt / FnDef, fresh inference table (plus one bound "
                  "variable in the bound-variable classes); unwind 8",
        "outside": "relate_ty_ty on fn pointers (binders: relate_binders instantiates both sides), tuples, arrays, dyn and "
                   "aliases; generalisation (relate_var_ty / generalize_*) of types containing lifetimes; tables with a longer "
                   "history than one bound variable; SubtypeGoal handling in the engines. The returned goals are identified "
                   "with the goals interned during the call by their number and read from the interner's observation log "
                   "(DESIGN.md B17), not from the Vec.",
        "assumptions": ["lifetimes handed to the unifier are not bound variables (documented: unification panics on them)"],
        "stubs": ["UnificationDatabase: a stub returning one symbolic declared variance (declared-variance classes) or unreachable",
                  "the Unifier is built by the harness as a struct literal with a goal list created before anything is interned "
                  "(Unifier::new performs the same field initialisation; DESIGN.md B19)"],
        "trusted_base": VINTERNER_TB + ["harness-side recording Zipper", "VInterner observation log (intern_goal records Holds(LifetimeOutlives) goals by value)"],
        "harness_note_default": "variance observed by a recording zipper / outlives goals returned by the unifier equal what the variance dictates",
        "level_text": "Bounded model checking (Kani/CBMC) of the real variance algebra, of the zip_substs / FnSubst "
                      "zipping code and of the unifier's lifetime / reference / declared-variance steps with all variances symbolic; "
                      "partial with respect to the property (fn pointers, deeper types and generalisation are outside).",
        "level_note": "Trusted: Kani/CBMC; VInterner and its observation log; the sign-product reading of the variance table.",
        "design_ref": "DESIGN.md §4.7",
    },
    "C13": {
        "units": [dict(solve_unit("harness/solve/src/c13.rs", "harness/solve/src/c13_pairs.rs"),
                       modules={"harness/solve/src/c13.rs": "c13", "harness/solve/src/c13_pairs.rs": "c13"})],
        "claim": "Solution::combine (chalk-solve/src/solve.rs), the operation documented as independent of argument "
                 "order through which the recursive solver merges the solutions of different clauses: for all 9 x 9 "
                 "ordered pairs of candidate kinds (Unique trivially-true / identity with a constraint / ground / ground "
                 "with a constraint, Definite identity / ground, Suggested ground / identity, Unknown), with equal and "
                 "with different ground substitutions, combine(a, b) == combine(b, a), "
                 "combine(a, a) == a, and the result is Unique / Definite(s) / Suggested(s) only when the candidates "
                 "support it.",
        "bounds": "one-variable canonical substitutions (identity, or ground with ids fixed per class: equal / different - "
                  "combine depends on its arguments only through equalities), binder universe symbolic, at most one lifetime "
                  "constraint; one query per ordered pair of candidate kinds; unwind 6",
        "outside": "the 16 ordered pairs with the constrained-identity Unique candidate (except against the trivially-true "
                   "one) do not finish under CBMC within 300 s and are NOT part of the claim; for the 12 classes whose "
                   "candidates carry equal substitutions the order-independence assertion is replaced by idempotence "
                   "(combine returns its first argument there); three of those (a constrained ground Unique on either side) do not finish either - all listed in harness/solve/src/c13_pairs.rs; declaration-order independence of WHOLE solves (program lowering, clause enumeration, "
                   "merge_into_guidance's arrival order, the engines) - those need solver runs, which do not finish "
                   "under CBMC (DESIGN.md §4.1); this check decides only the commutativity of the combination step",
        "assumptions": ["both candidates are canonical over the same binder list"],
        "stubs": ["tracing, tracing-attributes: no-op stub crates via [patch.crates-io]"],
        "trusted_base": VINTERNER_TB,
        "harness_note_default": "combine(a,b)==combine(b,a); result never stronger than the candidates; ids symbolic",
        "timeout_quick_s": 300, "timeout_thorough_s": 300,
        "level_text": "Bounded model checking (Kani/CBMC) of the real Solution::combine for every pair of candidate "
                      "kinds with symbolic ids. Partial with respect to the property: only the combination step, the "
                      "one place the code documents order independence.",
        "level_note": "Trusted: Kani/CBMC; VInterner. The property's main quantifier (permutations of program items) is "
                      "outside: stated in the evidence.",
        "design_ref": "DESIGN.md §4.5",
    },
    "C16": {
        "units": [solve_unit("harness/solve/src/c16.rs")],
        "claim": "Undoing universe compression: UniverseMapExt::map_from_canonical (UMapFromCanonical, "
                 "map_universe_from_canonical) moves a placeholder of every sort (type, lifetime, const) from its "
                 "canonical universe back to the universe recorded in the map, leaves its index alone, keeps the "
                 "order of universes, and maps canonical universes beyond the recorded range above every recorded "
                 "universe in order. (The compressing direction - UniverseMap::add, u_canonicalize - does not finish "
                 "under CBMC and is outside.)",
        "bounds": "universe maps [root, x] and [root, x, y] with x < y symbolic (full usize); placeholder leaves of each "
                  "sort in canonical universes 1..4 (in range and out of range), index symbolic; unwind 8",
        "outside": "UniverseMap::add / map_universe_to_canonical / u_canonicalize (Vec::insert and binary_search on "
                   "symbolic universes: DNF at 40 min / 20 GB, DESIGN.md B11); Canonicalizer (first-occurrence numbering "
                   "through the ena union-find table), instantiate_canonical, invert: they need an InferenceTable, whose ena tables live on the untyped heap (DESIGN.md P30); "
                   "values deeper than a leaf",
        "assumptions": ["placeholders live in non-root universes"],
        "stubs": ["tracing, tracing-attributes: no-op stub crates via [patch.crates-io]"],
        "trusted_base": VINTERNER_TB,
        "harness_note_default": "universe compression: sorted/dense/order-preserving and invertible; symbolic universes",
        "timeout_quick_s": 600, "timeout_thorough_s": 600,
        "level_text": "Bounded model checking (Kani/CBMC) of the real universe-map code and of the u_canonicalize / "
                      "map_from_canonical folders on placeholder leaves, universes fully symbolic. Partial: the "
                      "variable-numbering half of the property needs the inference table and is outside.",
        "level_note": "Trusted: Kani/CBMC (incl. its Vec model); VInterner.",
        "design_ref": "DESIGN.md §4.7",
    },
    "C27": {
        "units": [irshadow_unit("harness/irshadow/c27.rs",
                                modules={"harness/irshadow/c27.rs": "fold::in_place::verif_c27"})],
        "claim": "fallible_map_vec / fallible_map_box (chalk-ir/src/fold/in_place.rs, with the VecMappedInPlace drop "
                 "guard): for every vector length 0..4, every capacity slack 0..2 and every index at which the map "
                 "returns an error (or never), each element is dropped exactly once, on success nothing is dropped "
                 "before the result is and the result has the mapped elements in order, and all of CBMC's pointer, "
                 "bounds and deallocation checks on the unsafe code are discharged; same for boxes. Layouts: T = U, "
                 "T != U with identical layout (in-place path), different layout and zero-sized (collect path).",
        "bounds": "vector length <= 4, capacity slack <= 2, failing index symbolic (full usize), unwind 7; boxes: fail / succeed",
        "outside": "the PANIC mode: Kani/CBMC model a panic as termination (no unwinding), so the guard's behaviour "
                   "while unwinding is not decided (it is the same Drop impl in the same state as on the error path); "
                   "vectors longer than 4; leak freedom beyond the exact drop counts",
        "assumptions": ["the map consumes its argument (forget on success, drop on error), as folding does"],
        "stubs": [],
        "trusted_base": ["Kani's memory model of Vec / Box / the global allocator"],
        "harness_note_default": "symbolic length and failing index; per-element drop counters; CBMC memory checks",
        "level_text": "Bounded model checking (Kani/CBMC) of the real unsafe code with symbolic length, capacity and "
                      "failure position; exact drop counts asserted per element; memory-safety checks of the unsafe "
                      "blocks (pointer validity, double free) discharged by CBMC.",
        "level_note": "Trusted: Kani/CBMC and its allocator model. Error mode only; the panic mode is outside (stated).",
        "design_ref": "DESIGN.md §4.3",
    },
    "C17": {
        # two Kani sessions (halves the session size; DESIGN.md B19)
        "units": [engine_unit("harness/engine/c17_inval.rs", "harness/engine/c17_inval_rows.rs",
                              modules={"harness/engine/c17_inval.rs": "slg::verif_c17_inval",
                                       "harness/engine/c17_inval_rows.rs": "slg::verif_c17_inval"}),
                  dict(engine_unit("harness/engine/c17_anti.rs",
                                   modules={"harness/engine/c17_anti.rs": "slg::aggregate::verif_c17_anti"}),
                       name="engine-anti")],
        "claim": "(1) AntiUnifier::aggregate_tys / aggregate_lifetimes / aggregate_consts / aggregate_name_and_substs "
                 "(chalk-engine/src/slg/aggregate.rs): for 30 classes (8 list-carrying / pointer constructors with agreeing or "
                 "differing ids and children, references, arrays with agreeing lengths (differing lengths: withdrawn, spurious CBMC pointer failures in ena's Vec::push), leaf pairs) both inputs "
                 "are instances of the aggregate, the aggregate is linear (every fresh variable once), agreeing "
                 "constructors / positions are kept and each disagreeing position becomes exactly one fresh variable. "
                 "(2) SubstitutionExt::may_invalidate (MayInvalidate::aggregate_*; chalk-engine/src/slg.rs) answers "
                 "'cannot invalidate' only when the candidate answer is an instance of the current guidance, where the "
                 "bound variables of the guidance must be instantiated consistently (non-linear guidance such as "
                 "(X, X)). One constructor application per side over leaf children.",
        "bounds": "one constructor application per side; two children; leaf kinds fixed per query (bound variable / "
                  "ground / scalar / placeholder), payloads symbolic at full width including the indices of the "
                  "guidance's bound variables (so repeated variables are covered); thorough tier: for nine list-carrying "
                  "constructors, six guidance-children patterns x all 16 candidate-children kind pairs (864 classes in "
                  "216 row harnesses), and 14 anti-unifier rows over all agreement patterns; unwind 8",
        "outside": "merge_into_guidance / make_solution as wholes (InferenceTable::canonicalize on ena's heap tables, "
                   "DESIGN.md P30); anti-unification deeper than one constructor over leaves; top-level ids in the "
                   "anti-unifier classes are concrete (an id read back out of the widest TyKind variant is opaque to CBMC); "
                   "lifetimes in MayInvalidate (it answers 'may invalidate' for every lifetime pair, trivially conservative)",
        "assumptions": ["canonical binders [Ty, Ty, Const] in the root universe; the substitutions are well-kinded and "
                        "contain no free inference variables (MayInvalidate's documented contract)"],
        "stubs": ["tracing, tracing-attributes: no-op stub crates via [patch.crates-io]"],
        "trusted_base": VINTERNER_TB + ["harness-side one-sided matcher instance_of (m_ty)"],
        "harness_note_default": "!may_invalidate(new, current) => new is an instance of current (consistent bindings)",
        "level_text": "Bounded model checking (Kani/CBMC) of the real, crate-private MayInvalidate code reached from a "
                      "harness module appended to a byte copy of chalk-engine/src/slg.rs; one structural step per "
                      "constructor pair and leaf-kind class with all payloads symbolic.",
        "level_note": "Trusted: Kani/CBMC; VInterner; the shadow-crate mechanism (sources copied verbatim from /repo on "
                      "every run); the harness-side instance-of matcher.",
        "design_ref": "DESIGN.md §4.5",
    },
    "C25": {
        "units": [ir_unit("harness/ir/src/c25.rs", "harness/ir/src/c25_classes.rs")],
        "claim": "For every term of each class (7 type skeletons incl. function-pointer and trait-object binders, "
                 "3 goal skeletons incl. a quantified goal, 1 program clause; type / lifetime / const variable leaves "
                 "at de Bruijn depths 0..2): shifting in by k and back out is the identity; shifted_out_to(k) fails "
                 "exactly when a variable is bound within the k innermost binders and otherwise inverts shifted_in_from; "
                 "substituting a binder's own variables is the identity; substitution commutes with shifting; folding "
                 "with a folder that has only default methods returns an equal term; DebruijnIndex / BoundVar arithmetic "
                 "obeys the same laws at full 32-bit width. Code: Shifter, DownShifter, Subst::apply, Binders::substitute, "
                 "Binders::identity_substitution, the derived and hand-written TypeFoldable impls they drive.",
        "bounds": "class-partitioned: skeleton (depth <= 3 constructors), variable depths in {0,1,2}, shift amount k in "
                  "{1,2} fixed per query; symbolic inside a query: every index within a binder (full usize), ids, "
                  "ids (mutabilities, scalars, fn signatures and clause priorities are concrete: a symbolic field-less enum nested below a list makes the query not finish); unwind 8 with unwinding assertions",
        "outside": "deeper or wider terms; depth and shift amount as symbolic values (probe P28 does not finish); "
                   "goals of the form T: Trait (DomainGoal::Holds is opaque to CBMC's constant propagation, vinterner "
                   "layout notes) - WellFormed(T: Trait) goals and clause heads stand in for them; Implies goals",
        "assumptions": ["const types are closed (chalk's shifters rely on it and say so)",
                        "no de Bruijn overflow (d + k <= u32::MAX) in the arithmetic harness"],
        "stubs": [],
        "trusted_base": VINTERNER_TB,
        "harness_note_default": "one class of terms; algebraic law asserted for all indices / ids of the class",
        "level_text": "Bounded model checking (Kani/CBMC) of the real folding code per class of terms: the control "
                      "skeleton is fixed per query, everything else is decided by the solver at full machine width; "
                      "all classes of the stated bound are run in the thorough tier, a spread of them in the quick tier.",
        "level_note": "Trusted: Kani/CBMC; VInterner (structural equality of interned terms). The laws themselves are the "
                      "property statement; no reference implementation is involved.",
        "design_ref": "DESIGN.md §4.6",
        "timeout_quick_s": 300, "timeout_thorough_s": 300,
    },
    "C26": {
        "units": [ir_unit("harness/ir/src/c26.rs")],
        "claim": "For each of the 23 TyKind constructors applied to opaque children carrying ARBITRARY 16-bit flag "
                 "words, to a lifetime of any kind and to a constant of any kind, the flags stored by intern_ty "
                 "(TyKind::compute_flags and the helpers for substitutions, generic args, lifetimes, aliases, "
                 "trait-object bounds) equal own(K) | union of the children's flags on all occurrence bits. With "
                 "the leaf cases this is exactness of the occurrence flags for types of every depth.",
        "bounds": "one constructor application; argument lists [ty, lifetime, const, ty]; trait objects with one "
                  "Implemented bound, and with all four where-clause kinds at once; child flag words: all 2^16 values "
                  "each; lifetime / const kinds and payloads symbolic; unwind 8 with unwinding assertions",
        "outside": "argument lists longer than 4; STILL_FURTHER_SPECIALIZABLE (excluded by the property); whether "
                   "TyKind::OpaqueType / AssociatedType count as opaque / projection occurrences (property silent, not asserted)",
        "assumptions": ["children's stored flag words are taken as given (induction hypothesis: arbitrary)"],
        "stubs": [],
        "trusted_base": VINTERNER_TB,
        "harness_note_default": "flags(K(children)) == own(K) | flags(children) on occurrence bits; children flag words symbolic",
        "level_text": "Bounded model checking (Kani/CBMC) of the real compute_flags code, one structural step per "
                      "constructor with the children's flag words left completely free, so that each query covers that "
                      "constructor at every depth; the solver decides all 2^16 flag words per child, every lifetime and "
                      "constant kind.",
        "level_note": "Trusted: Kani/CBMC; VInterner; the occurrence table (own flags per constructor, lifetime and "
                      "constant contributions) written from the property statement and the flag documentation.",
        "design_ref": "DESIGN.md §4.2",
    },
    "C18": {
        "units": [dict(IR_UNIT, files=["harness/ir/src/c18.rs", "harness/ir/src/c18_rows.rs"],
                       modules={"harness/ir/src/c18.rs": "c18", "harness/ir/src/c18_rows.rs": "c18"})],
        "claim": "For every pair of types of the stated shapes, `could_match` (chalk-ir/src/could_match.rs, "
                 "MatchZipper::zip_tys and the derived Zip impls it drives) never answers false when the "
                 "one-step unifiability rule of the real unifier says the pair unifies; checked in both "
                 "argument orders. The step covers each of the 23 TyKind constructors against itself "
                 "(children: ground Foreign leaves with symbolic ids, plus mixed variable/ground child "
                 "classes), each constructor against every other one, all 81 pairs of leaf kinds "
                 "(as whole types and as children of a slice), and - thorough tier - for nine child-carrying "
                 "constructors (Adt, Tuple, Array, Slice, Ref, FnDef, Dyn, Alias, Function) the first child of every "
                 "leaf kind against every leaf kind (729 classes in 81 row harnesses); argument lists as such.",
        "bounds": "one constructor application per side over leaf children; argument lists [ty, lifetime, ty]; "
                  "ids, mutabilities, scalar kinds, placeholder/bound-var/inference-var payloads, lifetimes "
                  "(kind and payload) and array-length constants (kind and payload) symbolic at full width; "
                  "unwind 8/11/25 with unwinding assertions",
        "outside": "deeper nesting is covered only by the inductive reading (children verdicts equal their "
                   "unifiability for ground leaves); impls_for_trait's loop in chalk-integration; ADT "
                   "variance lists shorter than the argument list; the DomainGoal-level harness is separate",
        "assumptions": [
            "UnificationDatabase returns all-invariant variance lists (MatchZipper ignores variance)",
            "the harness oracle unif_top is the unifier's one-step rule (validated natively against "
            "InferenceTable::relate by harness/oracle in setup)",
        ],
        "stubs": [],
        "trusted_base": VINTERNER_TB,
        "harness_note_default": "could_match(a,b) vs one-step unifiability, both orders, symbolic payloads",
        "level_text": "Bounded model checking (Kani/CBMC) of the real could_match code: for every constructor pair and "
                      "every pair of leaf kinds the solver shows, for all ids / mutabilities / scalars / variable payloads "
                      "/ lifetimes / constants at full machine width, that a pair the unifier's one-step rule accepts is "
                      "never rejected by the filter, in both argument orders. One structural step with leaf children; "
                      "deeper terms follow by induction over the structural recursion of MatchZipper::zip_tys.",
        "level_note": "Trusted: Kani/CBMC; the VInterner instantiation; the harness-side one-step unifiability rule "
                      "(checked natively against InferenceTable::relate). Outside: nesting deeper than one constructor over "
                      "leaves is covered by the inductive argument only; DomainGoal-level zipping; impls_for_trait's loop.",
        "design_ref": "DESIGN.md §4.4",
    },
}
