"""Per-property specification of the checks: which harness crates ("units"), which harness files,
and the text that goes into the evidence (claim, bounds, assumptions, stubs, what is outside)."""

IR_UNIT = {
    "name": "ir",
    "kind": "external",
    "dir": "harness/ir",
    "files": ["harness/ir/src/c18.rs"],
    "modules": {"harness/ir/src/c18.rs": "c18"},
}

VINTERNER_TB = [
    "VInterner (harness/vinterner): the Interner instantiation under which the generic chalk code "
    "is verified; static typed arenas, structural equality",
]

PROPS = {
    "C18": {
        "units": [dict(IR_UNIT, files=["harness/ir/src/c18.rs"], modules={"harness/ir/src/c18.rs": "c18"})],
        "claim": "For every pair of types of the stated shapes, `could_match` (chalk-ir/src/could_match.rs, "
                 "MatchZipper::zip_tys and the derived Zip impls it drives) never answers false when the "
                 "one-step unifiability rule of the real unifier says the pair unifies; checked in both "
                 "argument orders. The step covers each of the 23 TyKind constructors against itself "
                 "(children: ground Foreign leaves with symbolic ids, plus mixed variable/ground child "
                 "classes), each constructor against every other one, and all 81 pairs of leaf kinds "
                 "(as whole types and as children of a slice).",
        "bounds": "one constructor application per side over leaf children; argument lists [ty, lifetime, ty]; "
                  "ids, mutabilities, scalar kinds, placeholder/bound-var/inference-var payloads, lifetimes "
                  "(kind and payload) and array-length constants (kind and payload) symbolic at full width; "
                  "unwind 8/11/25 with unwinding assertions",
        "outside": "deeper nesting is covered only by the inductive reading (children verdicts equal their "
                   "unifiability for ground leaves); impls_for_trait's loop in chalk-integration; ADT "
                   "variance lists shorter than the argument list; the DomainGoal-level harness is separate",
        "assumptions": [
            "UnificationDatabase returns all-invariant variance lists (MatchZipper ignores variance)",
            "the harness oracle unif_top is the unifier's one-step rule (validated natively against "
            "InferenceTable::relate by harness/oracle in setup)",
        ],
        "stubs": [],
        "trusted_base": VINTERNER_TB,
        "harness_note_default": "could_match(a,b) vs one-step unifiability, both orders, symbolic payloads",
        "level_text": "Bounded model checking (Kani/CBMC) of the real could_match code: for every constructor pair and "
                      "every pair of leaf kinds the solver shows, for all ids / mutabilities / scalars / variable payloads "
                      "/ lifetimes / constants at full machine width, that a pair the unifier's one-step rule accepts is "
                      "never rejected by the filter, in both argument orders. One structural step with leaf children; "
                      "deeper terms follow by induction over the structural recursion of MatchZipper::zip_tys.",
        "level_note": "Trusted: Kani/CBMC; the VInterner instantiation; the harness-side one-step unifiability rule "
                      "(checked natively against InferenceTable::relate). Outside: nesting deeper than one constructor over "
                      "leaves is covered by the inductive argument only; DomainGoal-level zipping; impls_for_trait's loop.",
        "design_ref": "DESIGN.md §4.4",
    },
}
