#!/bin/bash
# run_seed.sh <patch.diff> <Cxx> [tier] : apply a seeded change to /repo, run the check, undo it.
set -u
patch=$1; pid=$2; tier=${3:-quick}
cd /repo || exit 2
test -z "$(git status --porcelain)" || { echo "/repo not clean"; exit 2; }
git apply "$patch" || { echo "patch does not apply"; exit 2; }
cd /verif && ./check "$pid" --tier "$tier" > "/verif/.work/seed-$pid-$(basename $(dirname $patch)).log" 2>&1
rc=$?
git -C /repo checkout -- .
echo "seed $(dirname $patch) property $pid tier $tier -> exit $rc"
grep -E "VIOLATION|KNOWN-FINDING|INCONCLUSIVE|held:" "/verif/.work/seed-$pid-$(basename $(dirname $patch)).log" | cut -c1-200
exit $rc
