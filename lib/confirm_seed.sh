#!/bin/bash
# confirm_seed.sh <seed-dir> <worktree> "<demo cargo test args>"
# Confirms, in a scratch worktree of /repo, that a seeded change (1) compiles and passes the existing
# suites, (2) makes its demonstration fail, (3) and that the demonstration passes without it.
set -u
seed=$1; wt=$2; demo="$3"
export CARGO_NET_OFFLINE=true
cd "$wt" || exit 2
git checkout -q -- . && git clean -qfd -e target
out="$seed/confirm.log"; : > "$out"
git apply "$seed/patch.diff" || { echo "patch does not apply" >> "$out"; exit 2; }
echo "== suite with mutation" >> "$out"
for t in "-p chalk-ir" "-p chalk-solve" "-p chalk-engine" "--test lib"; do
  r=$(cargo test --offline $t 2>&1 | grep -E "^test result|error(\[|:)" | tr '\n' ' ')
  echo "cargo test --offline $t :: $r" >> "$out"
done
git apply "$seed/demo.patch" 2>>"$out" || echo "demo.patch did not apply" >> "$out"
echo "== demo with mutation (expected: FAIL)" >> "$out"
cargo test --offline $demo 2>&1 | grep -E "^test result|^test .*(FAILED|ok)$|panicked|error(\[|:)" | head -12 >> "$out"
git apply -R "$seed/patch.diff"
echo "== demo without mutation (expected: ok)" >> "$out"
cargo test --offline $demo 2>&1 | grep -E "^test result|^test .*(FAILED|ok)$|error(\[|:)" | head -12 >> "$out"
git checkout -q -- . && git clean -qfd -e target
echo "== done" >> "$out"
