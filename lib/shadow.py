"""Shadow crates: the real source of a chalk crate, byte for byte, plus one `mod` line per
harness file appended to the file that owns the private items the harness needs (DESIGN.md §2.1).
Regenerated from /repo's working tree on every run; a file is rewritten only when its content
changed so that cargo's fingerprints stay valid across runs."""
import filecmp
import os
import shutil


def _write_if_changed(path, text):
    if os.path.exists(path):
        with open(path) as fh:
            if fh.read() == text:
                return
    os.makedirs(os.path.dirname(path), exist_ok=True)
    with open(path, "w") as fh:
        fh.write(text)


def regenerate(spec, repo, verif, work):
    """spec: {name, crate, appends: {relpath: [(harness file rel. to /verif, module name)]},
              cargo_toml: template path rel. to /verif}"""
    src = os.path.join(repo, spec["crate"], "src")
    dst_root = os.path.join(work, "shadow", spec["name"])
    dst = os.path.join(dst_root, "src")
    os.makedirs(dst, exist_ok=True)
    seen = set()
    for root, dirs, files in os.walk(src):
        rel = os.path.relpath(root, src)
        for f in files:
            rp = os.path.normpath(os.path.join(rel, f))
            seen.add(rp)
            s = os.path.join(root, f)
            d = os.path.join(dst, rp)
            key = os.path.join("src", rp)
            if key in spec.get("appends", {}):
                with open(s) as fh:
                    text = fh.read()
                if not text.endswith("\n"):
                    text += "\n"
                for hfile, mod in spec["appends"][key]:
                    text += '#[path = "%s"]\nmod %s;\n' % (os.path.join(verif, hfile), mod)
                _write_if_changed(d, text)
            else:
                os.makedirs(os.path.dirname(d), exist_ok=True)
                if not os.path.exists(d) or not filecmp.cmp(s, d, shallow=False):
                    shutil.copyfile(s, d)
    # remove files that disappeared from the repo
    for root, dirs, files in os.walk(dst):
        rel = os.path.relpath(root, dst)
        for f in files:
            rp = os.path.normpath(os.path.join(rel, f))
            if rp not in seen:
                os.remove(os.path.join(root, f))
    with open(os.path.join(verif, spec["cargo_toml"])) as fh:
        toml = fh.read().replace("@REPO@", repo).replace("@VERIF@", verif)
    _write_if_changed(os.path.join(dst_root, "Cargo.toml"), toml)
    lock_src = os.path.join(verif, spec.get("lock", "")) if spec.get("lock") else os.path.join(repo, "Cargo.lock")
    shutil.copyfile(lock_src, os.path.join(dst_root, "Cargo.lock"))
    return dst_root
