"""One-line reasons for the properties not claimed (details: DESIGN.md §5)."""
ENGINE = ("its only unit is a whole solver run / the recursive fixed-point engine: under CBMC one solve of one concrete "
          "two-impl program and five variants of the engine harness did not finish (DESIGN.md §3 P7-P14, P20, P24, P32, P33)")
REASONS = {
    "C01": 'Not applicable: needs solves of arbitrary programs against a reference semantics; whole solver runs and the recursive fixed-point engine do not finish under CBMC (DESIGN.md §4.1). Its guidance clause rests on may_invalidate, which is checked under C17 (known finding F1).',
    "C02": "Not applicable: " + ENGINE,
    "C03": 'Not applicable: enumeration soundness/completeness and the look-ahead flag need SLG solver runs (DESIGN.md §4.1); the one kernel, Table::push_answer, hashes Canonical<AnswerSubst> into hashbrown (SIMD group probes, P8) and reads terms CBMC cannot constant-propagate (§2.2a)',
    "C04": "Not applicable: needs two complete Solver::solve runs on arbitrary programs; " + ENGINE,
    "C05": "Not applicable: coinductive semantics live in the engines and in clause generation; " + ENGINE,
    "C06": "Not applicable: clause generation (ClauseBuilder, Arc'ed datums, Vec<ProgramClause>) does not finish under CBMC (P31: 8 min / 10.7 GB)",
    "C07": "Not applicable: clause generation plus solver runs (P31, P7)",
    "C08": "Not applicable: built-in trait clause generation goes through ClauseBuilder and the RustIrDatabase (P31)",
    "C09": 'Not applicable: termination of solve calls has no unit smaller than a solve; the size measure and the overflow guard do not compose into termination, and solves do not finish under CBMC (DESIGN.md §4.1)',
    "C10": "Not applicable: " + ENGINE,
    "C11": "Not applicable: " + ENGINE,
    "C12": "Not applicable: the property is about state after a panic unwinds; Kani/CBMC model panic as termination (no unwinding, no catch_unwind, drop guards do not run)",
    "C14": "Not applicable: the smallest unit is InferenceTable::relate. Re-attempted in the build phase with the layout-engineered interner (harness/solveshadow/c14.rs, B18): the purely structural / lifetime steps of Unifier::relate_ty_ty do finish and are claimed under C29, but every class with an unknown goes through relate_var_ty (OccursCheck fold + generalize_ty + ena unify_var_value) and does not finish in 900 s even for one unknown against one placeholder, with or without the snapshot; without unknowns unification is structural equality and says nothing about unifiers or universes",
    "C15": "Not applicable: same unit as C14 (relate); additionally InferenceTable::snapshot + rollback_to alone (vars.clone(), ena's undo log) on a two-variable table is inconclusive after 276 s (B18), and a failing relate with an unknown does not finish in 900 s",
    "C19": "Not applicable: attempted (harness/solveshadow/c19.rs: the priority assignment set_priorities + SpecializationPriorities::insert on a three-impl forest with a stub database) - one class does not finish in 600 s: SpecializationPriorities is an IndexMap with std RandomState (getrandom keys are nondeterministic, SipHash of them, hashbrown SIMD group probes modelled lane by lane), the forest is a petgraph Graph on the heap (DESIGN.md B16); the pairwise disjoint/specializes queries need solver runs. F2 is documented from its native reproduction only",
    "C20": "Not applicable: orphan-check clauses come from clause generation (P31) and are judged by a solver run",
    "C21": "Not applicable: a meta-property whose truth is an entailment evaluated by solver runs over a universe of types",
    "C22": "Not applicable: fmt-driven printer and LALRPOP parser/lexer with string_cache atoms are beyond bit-level symbolic execution (and hit the Kani ICE of P3)",
    "C23": "Not applicable: C22's pipeline plus two whole-solver runs per goal",
    "C24": "Not applicable: the subject is the generated parser, its lexer and the string-keyed lowering environment (C22's reason); fuzzing territory, and the brief excludes switching technique",
}
