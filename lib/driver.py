#!/usr/bin/env python3
"""Driver for the solver-based checks of /verif (DESIGN.md §2.5).

    check <Cxx> [--tier quick|thorough] [--jobs N] [--keep]
    check <Cxx> --replay <file>        re-run a recorded counterexample natively

Per property (lib/props.py) the driver
  1. regenerates the harness crates from /repo's *current* working tree (external harness crates
     use path dependencies on /repo; shadow crates are byte copies of /repo/<crate>/src with one
     `#[path] mod` line per harness file appended to the file owning the private items),
  2. runs `cargo kani` on the property's harnesses (CBMC, unwinding assertions on),
  3. classifies every harness: verified / vacuous / inconclusive (timeout, OOM, unwinding
     assertion, ICE, compile error) / failed,
  4. for failed harnesses extracts the solver's concrete input (concrete playback), replays it
     natively through the same harness function against the same code, and only then reports
     `VIOLATION property=<id> replay=<path>` (exit 1) — or `KNOWN-FINDING:` (exit 0) when the
     failure is listed in known_findings.json; a counterexample that does not reproduce is an
     encoding problem: exit 2,
  5. writes evidence/<id>.json (only from a run that decided at least two harnesses and was not
     interrupted: see write_evidence and _interrupted).

Exit codes: 0 held on everything explored; 1 violation; 2 inconclusive (never a pass).
"""
import argparse
import json
import os
import re
import shutil
import subprocess
import sys
import time

VERIF = os.path.dirname(os.path.dirname(os.path.abspath(__file__)))
REPO = os.environ.get("VERIF_REPO", "/repo")
WORK = os.path.join(VERIF, ".work")
sys.path.insert(0, os.path.join(VERIF, "lib"))

import props  # noqa: E402
import shadow  # noqa: E402

ENV = dict(os.environ)
ENV["CARGO_NET_OFFLINE"] = "true"
ENV.setdefault("CARGO_TERM_COLOR", "never")
# the shell profile of this sandbox prints a conda warning; keep tool output clean
ENV.pop("RUSTFLAGS", None)


def log(msg):
    print(msg, flush=True)


_CHILD = None  # the tool process currently running (cargo kani / cargo test), for the signal handler


def _descendants(pid):
    """All live descendants of `pid`, from /proc (cargo kani -> kani-driver -> cbmc ...)."""
    kids = {}
    for e in os.listdir("/proc"):
        if not e.isdigit():
            continue
        try:
            with open("/proc/%s/stat" % e) as fh:
                st = fh.read()
            ppid = int(st[st.rindex(")") + 2:].split()[1])
        except (OSError, ValueError, IndexError):
            continue
        kids.setdefault(ppid, []).append(int(e))
    out, todo = [], [pid]
    while todo:
        for k in kids.get(todo.pop(), []):
            out.append(k)
            todo.append(k)
    return out


def _interrupted(signum, frame):
    """SIGTERM / SIGINT / SIGHUP: an interrupted run is not a record of anything. Stop the tools and
    leave evidence/<id>.json as it is (a run killed half way once wrote 'nothing decided' over the
    evidence of the last complete run)."""
    import signal
    for k in reversed(_descendants(os.getpid())):
        try:
            os.kill(k, signal.SIGKILL)
        except OSError:
            pass
    sys.stdout.write("[driver] interrupted by signal %d: no verdict, evidence file not written\n" % signum)
    sys.stdout.flush()
    os._exit(128 + signum)


def sh(cmd, cwd=None, timeout=None, env=None, mem_gb=None):
    """Run a command, return (rc, combined output, seconds). rc=-9 on timeout."""
    global _CHILD
    t0 = time.time()
    pre = None
    if mem_gb:
        import resource

        def pre():
            lim = int(mem_gb * (1 << 30))
            resource.setrlimit(resource.RLIMIT_AS, (lim, lim))

    p = subprocess.Popen(
        cmd,
        cwd=cwd,
        env=env or ENV,
        stdout=subprocess.PIPE,
        stderr=subprocess.STDOUT,
        text=True,
        errors="replace",
        preexec_fn=pre,
    )
    _CHILD = p
    try:
        out, _ = p.communicate(timeout=timeout)
        return p.returncode, out, time.time() - t0
    except subprocess.TimeoutExpired:
        import signal
        for k in reversed(_descendants(p.pid)):
            try:
                os.kill(k, signal.SIGKILL)
            except OSError:
                pass
        p.kill()
        out, _ = p.communicate()
        return -9, out or "", time.time() - t0
    finally:
        _CHILD = None


# ---------------------------------------------------------------------------------------------
# harness discovery
# ---------------------------------------------------------------------------------------------

def discover(unit, pid):
    """Names of the harnesses of property `pid` in a unit, by scanning the harness sources for
    identifiers `cNN_[qt]_...` (all harnesses are declared through `vharness!`)."""
    names = set()
    pat = re.compile(r"\b(%s_[qtx]_[a-z0-9_]+)\b" % pid.lower())
    for f in unit["files"]:
        with open(os.path.join(VERIF, f)) as fh:
            for line in fh:
                if line.lstrip().startswith("//"):
                    continue
                names.update(pat.findall(line))
    return sorted(names)


def tier_select(names, tier):
    if tier == "thorough":
        return [n for n in names if "_q_" in n or "_t_" in n]
    return [n for n in names if "_q_" in n]


# ---------------------------------------------------------------------------------------------
# running Kani
# ---------------------------------------------------------------------------------------------

def crate_dir(unit):
    if unit["kind"] == "external":
        d = os.path.join(VERIF, unit["dir"])
        lock = os.path.join(d, "Cargo.lock")
        shutil.copyfile(os.path.join(REPO, "Cargo.lock"), lock)
        return d
    return shadow.regenerate(unit["shadow"], REPO, VERIF, WORK)


def kani_cmd(unit, harnesses, jobs, timeout_s, out_json, extra=None):
    tdir = os.path.join(WORK, "kani-" + unit["name"])
    cmd = [
        "cargo", "kani",
        "--target-dir", tdir,
        "-j", str(jobs),
        "--output-format", "terse",
        "-Z", "unstable-options",
        "--harness-timeout", "%ds" % timeout_s,
        "--export-json", out_json,
        "--exact",
        # reachability of assertions is witnessed by explicit kani::cover! statements instead
        # (the built-in reach checks cost 4-5x solver time on these harnesses)
        "--no-assertion-reach-checks",
    ]
    for z in unit.get("kani_z", []):
        cmd += ["-Z", z]
    cmd += unit.get("kani_args", [])
    if extra:
        cmd += extra
    for h in harnesses:
        cmd += ["--harness", h]
    cbmc = unit.get("cbmc_args", [])
    if cbmc:
        cmd += ["--cbmc-args"] + cbmc
    return cmd


def full_names(unit, names):
    """Fully qualified harness names (for --exact): module path is given per file."""
    out = []
    for n in names:
        mod = None
        for f, m in unit["modules"].items():
            with open(os.path.join(VERIF, f)) as fh:
                if re.search(r"\b%s\b" % re.escape(n), fh.read()):
                    mod = m
                    break
        out.append((mod + "::" + n) if mod else n)
    return out


def parse_terse(output):
    """Per-harness blocks of Kani's terse output: failed check descriptions, timeouts."""
    info = {}
    cur = None
    for line in output.splitlines():
        m = re.match(r"(?:Thread \d+: )?Checking harness (\S+?)\.\.\.", line)
        if m:
            cur = m.group(1)
            info.setdefault(cur, {"failed_checks": [], "raw": []})
            continue
        m = re.match(r"(?:Thread \d+: )?Failed Checks: (.*)", line)
        if m and cur:
            info[cur]["failed_checks"].append(m.group(1).strip())
        if cur:
            info[cur]["raw"].append(line)
    return info


# A Kani session holds every harness result in the driver process, which runs under the same
# address-space cap as its cbmc children: 614 harnesses in one session exhausted 16 GB of address
# space in kani-driver itself ("memory allocation failed", all results lost). Sessions of up to 260
# harnesses are measured to be fine, so larger units are run in chunks.
SESSION_MAX = int(os.environ.get("VERIF_SESSION_MAX", "200"))


def run_unit(unit, pid, tier, jobs, timeout_s, only=None):
    """Run all harnesses of one unit (in sessions of at most SESSION_MAX). Returns dict harness -> result."""
    names = tier_select(discover(unit, pid), tier)
    if only:
        names = [n for n in names if only in n]
    if not names:
        return {}, {"unit": unit["name"], "error": "no harnesses discovered"}
    results, meta = {}, None
    for part, i in enumerate(range(0, len(names), SESSION_MAX)):
        r, m = _run_names(unit, pid, tier, jobs, timeout_s, names[i:i + SESSION_MAX], part)
        results.update(r)
        if meta is None:
            meta = m
        else:
            meta["cmd"] += " ; " + m["cmd"]
            meta["wall_s"] = round(meta["wall_s"] + m["wall_s"], 1)
            meta["rc"] = max(meta["rc"], m["rc"])
            for k in ("error", "tail"):
                if k in m and k not in meta:
                    meta[k] = m[k]
    return results, meta


def _run_names(unit, pid, tier, jobs, timeout_s, names, part):
    t0 = time.time()
    d = crate_dir(unit)
    fq = full_names(unit, names)
    sfx = "" if part == 0 else ".%d" % part
    out_json = os.path.join(WORK, "kani-%s-%s%s.json" % (unit["name"], pid, sfx))
    if os.path.exists(out_json):
        os.remove(out_json)
    cmd = kani_cmd(unit, fq, jobs, timeout_s, out_json)
    wall_cap = unit.get("wall_cap_s", 3600 if tier == "quick" else 4 * 3600)
    # address-space cap per process (inherited by every cbmc): a query that wants more is reported as
    # inconclusive instead of taking the machine down (16 harnesses run in parallel on 62 GB)
    rc, out, secs = sh(cmd, cwd=d, timeout=wall_cap, mem_gb=float(os.environ.get("VERIF_MEM_GB", "16")))
    logf = os.path.join(WORK, "kani-%s-%s%s.log" % (unit["name"], pid, sfx))
    with open(logf, "w") as fh:
        fh.write(" ".join(cmd) + "\n" + out)
    results = {}
    meta = {"unit": unit["name"], "cmd": " ".join(cmd), "rc": rc, "wall_s": round(secs, 1),
            "log": logf}
    if not os.path.exists(out_json):
        # compile error / ICE / wall cap: nothing was decided
        meta["error"] = "no result file (compile error, ICE or wall cap); see log"
        tail = "\n".join(out.splitlines()[-40:])
        meta["tail"] = tail
        for n in fq:
            results[n] = {"status": "inconclusive", "why": "no result (build failure or cap)"}
        return results, meta
    data = json.load(open(out_json))
    meta["tools"] = data.get("tools", {})
    terse = parse_terse(out)
    by_id = {r["harness_id"]: r for r in data["verification_results"]["results"]}
    props_by = {r["harness_id"]: r["property_details"] for r in data.get("property_details", [])}
    cbmc_by = {r["harness_id"]: r for r in data.get("cbmc", [])}
    for n in fq:
        r = by_id.get(n)
        if r is None:
            results[n] = {"status": "inconclusive", "why": "harness not executed (filter/timeout)"}
            continue
        pd = props_by.get(n, {})
        cb = cbmc_by.get(n, {}).get("cbmc_stats") or {}
        checks = r.get("checks", [])
        failed = [c for c in checks if c.get("status") == "Failure"]
        fdesc = [(c.get("description", ""), c.get("function", ""), c.get("status", ""),
                  "%s:%s" % (c.get("location", {}).get("file", "?"), c.get("location", {}).get("line", "?")))
                 for c in failed]
        funcs = set()
        shadow_src = os.path.join(WORK, "shadow") + "/"
        for c in checks:
            loc = c.get("location", {}).get("file", "")
            # code of /repo: compiled from /repo itself, or from the byte copy in a shadow crate
            in_repo = loc.startswith(REPO + "/") or (loc.startswith(shadow_src) and "/src/bin/" not in loc) or (
                unit["kind"] == "shadow" and loc.startswith("src/") and not loc.startswith("src/bin/"))
            if in_repo and c.get("status") == "Success" and c.get("category") != "unreachable":
                funcs.add(c.get("function", "?"))
        covers_sat = pd.get("satisfied", 0)
        covers_unsat = pd.get("unsatisfiable", 0)
        res = {
            "kani_status": r.get("status"),
            "duration_s": round(r.get("duration_ms", 0) / 1000.0, 2),
            "checks_total": pd.get("total_properties", len(checks)),
            "checks_passed": pd.get("passed", 0),
            "checks_failed": pd.get("failed", 0),
            "checks_unreachable": pd.get("unreachable", 0),
            "checks_undetermined": pd.get("undetermined", 0),
            "covers_satisfied": covers_sat,
            "covers_unsatisfiable": covers_unsat,
            "symex_s": cb.get("runtime_symex_s"),
            "solver_s": cb.get("runtime_solver_s"),
            "symex_steps": cb.get("size_program_expression"),
            "vccs_generated": cb.get("vccs_generated"),
            "vccs_remaining": cb.get("vccs_remaining"),
            "repo_functions": sorted(funcs),
            "failed": fdesc,
        }
        unwind_fail = any("unwinding assertion" in d[0] for d in fdesc)
        user_fail = [d for d in fdesc if "unwinding assertion" not in d[0]]
        timeout = any("cbmc timed out" in l.lower() for l in terse.get(n, {}).get("raw", []))
        undetermined = pd.get("undetermined", 0) or 0
        if r.get("status") == "Success" and not fdesc and undetermined:
            res["status"] = "inconclusive"
            res["why"] = "%d check(s) undetermined" % undetermined
        elif r.get("status") == "Success" and not fdesc:
            if covers_unsat > 0:
                res["status"] = "vacuous"
                res["why"] = "%d cover witness(es) unsatisfiable" % covers_unsat
            else:
                res["status"] = "verified"
        elif timeout or (not fdesc and r.get("status") != "Success"):
            res["status"] = "inconclusive"
            res["why"] = "timeout / solver error / out of memory"
        elif unwind_fail and not user_fail:
            res["status"] = "inconclusive"
            res["why"] = "unwinding assertion failed: bound too small for this code"
        elif unwind_fail:
            # assertion failures under a truncated unwinding may be artefacts: re-examined by replay
            res["status"] = "failed"
            res["why"] = "assertion failed (an unwinding assertion failed as well)"
        else:
            res["status"] = "failed"
        results[n] = res
    return results, meta


# ---------------------------------------------------------------------------------------------
# counterexample extraction and native replay
# ---------------------------------------------------------------------------------------------

def parse_playback_blocks(out):
    """Kani prints one unit test per failed check and per satisfied cover: [(kind, desc, values, comments)]."""
    blocks = []
    cur = None
    last_comment = None
    for line in out.splitlines():
        s = line.strip()
        m = re.match(r"/// Check for `([^`]*)`: (.*)", s)
        if m:
            cur = {"kind": m.group(1), "desc": m.group(2), "vals": [], "comments": [], "open": False}
            blocks.append(cur)
            continue
        if cur is None:
            continue
        if "let concrete_vals" in s:
            cur["open"] = True
            continue
        if cur["open"]:
            if s.startswith("//"):
                last_comment = s[2:].strip()
                continue
            m = re.match(r"vec!\[([0-9, ]*)\],?", s)
            if m:
                body = m.group(1).strip()
                cur["vals"].append([int(x) for x in body.split(",") if x.strip() != ""])
                cur["comments"].append(last_comment)
                last_comment = None
                continue
            if s.startswith("];"):
                cur["open"] = False
    return blocks


def playback_cmd(unit, fq_name):
    cmd = ["cargo", "kani", "--target-dir", os.path.join(WORK, "kani-" + unit["name"]),
           "--output-format", "terse", "-Z", "concrete-playback", "--concrete-playback=print",
           "-Z", "unstable-options", "--no-assertion-reach-checks",
           "--exact", "--harness", fq_name]
    for z in unit.get("kani_z", []):
        cmd += ["-Z", z]
    cmd += unit.get("kani_args", [])
    cbmc = unit.get("cbmc_args", [])
    if cbmc:
        cmd += ["--cbmc-args"] + cbmc
    return cmd


def witness_sample(unit, d, fq_name):
    """One concrete input per satisfied cover witness of a verified harness (solver model, decoded by
    Kani's concrete playback): an actual case of the class the harness quantifies over."""
    rc, out, secs = sh(playback_cmd(unit, fq_name), cwd=d, timeout=900)
    res = []
    for b in parse_playback_blocks(out):
        if b["kind"] == "cover":
            res.append({"harness": fq_name, "witness_of": b["desc"],
                        "symbolic_inputs_in_draw_order": [c for c in b["comments"]],
                        "n_draws": len(b["vals"])})
    return res


def extract_counterexample(unit, d, fq_name, pid):
    """Re-run one failed harness with concrete playback; returns path of the replay file."""
    rc, out, secs = sh(playback_cmd(unit, fq_name), cwd=d, timeout=3600)
    blocks = parse_playback_blocks(out)
    chosen = None
    for b in blocks:
        if b["kind"] != "cover":
            chosen = b
            break
    vals = chosen["vals"] if chosen else []
    comments = chosen["comments"] if chosen else []
    os.makedirs(os.path.join(VERIF, "replays"), exist_ok=True)
    short = fq_name.split("::")[-1]
    path = os.path.join(VERIF, "replays", "%s_%s.replay" % (pid, short))
    with open(path, "w") as fh:
        fh.write("# property=%s harness=%s unit=%s\n" % (pid, fq_name, unit["name"]))
        fh.write("# solver counterexample (Kani concrete playback), one value per line, LE bytes\n")
        for v, c in zip(vals, comments):
            if c:
                fh.write("# %s\n" % c)
            fh.write(" ".join(str(b) for b in v) + "\n")
    return path, len(vals), out


def native_replay(unit, d, fq_name, replay_path, release=False):
    """Run the harness function natively (as a #[test]) on the recorded input.
    Returns (reproduced: bool, output)."""
    short = fq_name.split("::")[-1]
    env = dict(ENV)
    env["VERIF_REPLAY"] = replay_path
    env["RUST_BACKTRACE"] = "0"
    tdir = os.path.join(WORK, "native-" + unit["name"])
    enc_bug_marker = "VERIF-REPLAY:"
    if unit["kind"] == "shadow":
        # shadow crates: the generated bin calls the unmangled harness function
        cmd = ["cargo", "run", "--offline", "--target-dir", tdir, "--bin", "verif_replay"]
        if release:
            cmd.append("--release")
        cmd += ["--", short]
        rc, out, secs = sh(cmd, cwd=d, env=env, timeout=1800)
        built = "Running `" in out or "VERIF-REPLAY-OK" in out or "panicked at" in out
        ok_run = "VERIF-REPLAY-OK" in out
        panicked = "panicked at" in out
        return (built and panicked and not ok_run and enc_bug_marker not in out), out, short
    cmd = ["cargo", "test", "--offline", "--target-dir", tdir, "--lib"]
    if release:
        cmd.append("--release")
    cmd += unit.get("native_args", [])
    cmd += ["--", "--exact", fq_name, "--nocapture", "--test-threads", "1"]
    rc, out, secs = sh(cmd, cwd=d, env=env, timeout=1800)
    ran = re.search(r"running 1 test", out) is not None
    failed = re.search(r"test result: FAILED", out) is not None
    enc_bug = enc_bug_marker in out
    return (ran and failed and not enc_bug), out, short


def load_known():
    p = os.path.join(VERIF, "known_findings.json")
    if not os.path.exists(p):
        return []
    return [e for e in json.load(open(p)).get("findings", []) if e.get("status") == "open"]


def match_known(known, pid, fq_name, fdesc):
    """A failed harness is a known finding only if EVERY failed check in it is covered by a listed
    finding (keyed by property, optional harness name, and a marker in the assertion message that
    the harness attaches to exactly the listed input class). Returns the list of entries, or None."""
    short = fq_name.split("::")[-1]
    hits = []
    for d in fdesc:
        if "unwinding assertion" in d[0]:
            return None
        found = None
        for e in known:
            if e["property"] != pid:
                continue
            if e.get("harness") and e["harness"] != short:
                continue
            if e["message_contains"] in d[0]:
                found = e
                break
        if found is None:
            return None
        hits.append(found)
    return hits or None


# ---------------------------------------------------------------------------------------------
# main
# ---------------------------------------------------------------------------------------------

def write_evidence(pid, tier, seed, spec, all_results, metas, wall, violations, extra=None):
    harnesses = []
    obligations = discharged = 0
    funcs = set()
    symex = solver = 0.0
    verified = 0
    steps = vccs = vccs_solved = replayed = 0
    for n, r in sorted(all_results.items()):
        steps += r.get("symex_steps") or 0
        vccs += r.get("vccs_generated") or 0
        vccs_solved += r.get("vccs_remaining") or 0
        replayed += 1 if r.get("replayed_dev") is not None else 0
        harnesses.append({k: v for k, v in r.items() if k != "repo_functions"} | {"harness": n})
        obligations += r.get("checks_total", 0) or 0
        discharged += (r.get("checks_passed", 0) or 0) + (r.get("checks_unreachable", 0) or 0)
        funcs.update(r.get("repo_functions", []))
        symex += r.get("symex_s") or 0.0
        solver += r.get("solver_s") or 0.0
        if r.get("status") in ("verified", "known_finding") and (r.get("checks_passed", 0) or 0) > 0:
            verified += 1
        elif r.get("status") == "failed" and r.get("replayed_dev"):
            verified += 1  # decided: a violation reproduced natively
    samples = []
    for h in harnesses[:12]:
        samples.append({
            "harness": h["harness"],
            "status": h.get("status"),
            "what": spec.get("harness_notes", {}).get(h["harness"].split("::")[-1],
                                                     spec.get("harness_note_default", "")),
            "checks_discharged": h.get("checks_passed"),
            "covers_satisfied": h.get("covers_satisfied"),
            "cbmc_s": h.get("duration_s"),
        })
    if extra and extra.get("solver_witnesses"):
        samples = [w for w in extra["solver_witnesses"] if "harness" in w][:3] + samples
    ev = {
        "property_id": pid,
        "tier": tier,
        "seed": seed,
        "level": "model_checking",
        "coverage": {
            "evaluations": len(all_results),
            "distinct_nontrivial": verified,
            "rule": "one evaluation = one Kani/CBMC query (one #[kani::proof] harness) over the real "
                    "chalk code with symbolic inputs; counted as distinct and non-trivial when the "
                    "harness has a unique name, CBMC discharged at least one check in it, every "
                    "unwinding assertion held and every kani::cover! witness was satisfiable "
                    "(non-vacuous).",
            "samples": samples,
            "obligations": obligations,
            "discharged": discharged,
            "checker_cmd": "; ".join(m.get("cmd", "") for m in metas),
            "trusted_base": spec.get("trusted_base", []) + [
                "Kani 0.68.0 / CBMC 6.11.0 / cadical (translation of MIR to goto programs, symbolic execution, SAT)",
                "rustc front end of Kani's pinned toolchain",
                "no-op tracing stub crates (logging has no effect on results)",
            ],
            "explanation": spec.get("claim", ""),
            "bounds": spec.get("bounds", ""),
            "outside_the_claim": spec.get("outside", ""),
            "functions_encoded": sorted(funcs),
            "stubs": spec.get("stubs", []),
            "solver_time_s": round(solver, 2),
            "symex_time_s": round(symex, 2),
            "queries_discharged": verified,
            # CBMC's own size figures, summed over the harnesses of this run: SSA steps of the unwound
            # program equations, verification conditions generated, and those left for the SAT solver
            # after simplification (the rest were discharged by constant propagation / slicing)
            "symex_steps": steps,
            "vccs_generated": vccs,
            "vccs_decided_by_sat": vccs_solved,
            # solver counterexamples replayed natively against the real code in this run (0 on a
            # tree where nothing failed; known findings are re-found and replayed on every run)
            "counterexamples_replayed_natively": replayed,
            "harnesses": harnesses,
            "units": metas,
            "exhaustive": False,
        },
        "assumptions": spec.get("assumptions", []),
        "wall_s": round(wall, 1),
        "violations": violations,
    }
    if extra:
        ev["coverage"].update(extra)
    os.makedirs(os.path.join(VERIF, "evidence"), exist_ok=True)
    dest = os.path.join(VERIF, "evidence", pid + ".json")
    if verified < 2:
        # A run in which (next to) nothing was decided - build failure, wall cap, every query out of
        # time - is not evidence of coverage (EVIDENCE.schema.json wants at least two decided,
        # distinct cases) and must not replace the record of the last run that did decide something.
        # It exits 2 anyway; what happened is kept next to the logs.
        dest = os.path.join(WORK, "undecided-%s-%s.json" % (pid, tier))
        log("[%s] only %d harness(es) decided: not an evidence record, written to %s" % (pid, verified, dest))
    with open(dest, "w") as fh:
        json.dump(ev, fh, indent=1)


def main():
    ap = argparse.ArgumentParser()
    ap.add_argument("pid")
    ap.add_argument("--tier", default=os.environ.get("VERIF_TIER", "quick"))
    ap.add_argument("--jobs", type=int, default=int(os.environ.get("VERIF_JOBS", "14")))
    ap.add_argument("--replay")
    ap.add_argument("--only", help="substring filter on harness names (debugging)")
    args = ap.parse_args()
    pid = args.pid.upper()
    tier = "thorough" if args.tier.startswith("t") else "quick"
    seed = int(os.environ.get("VERIF_SEED", "0") or 0)
    spec = props.PROPS.get(pid)
    if spec is None:
        log("property %s is not claimed (see MANIFEST.json not_applicable)" % pid)
        return 2
    os.makedirs(WORK, exist_ok=True)
    t0 = time.time()
    import signal
    for sig in (signal.SIGTERM, signal.SIGINT, signal.SIGHUP):
        signal.signal(sig, _interrupted)

    if args.replay:
        return do_replay(pid, spec, args.replay)

    all_results = {}
    metas = []
    unit_of = {}
    dirs = {}
    timeout_s = spec.get("timeout_quick_s", 900) if tier == "quick" else spec.get("timeout_thorough_s", 2400)
    for unit in spec["units"]:
        res, meta = run_unit(unit, pid, tier, args.jobs, timeout_s, only=args.only)
        metas.append(meta)
        for k, v in res.items():
            all_results[k] = v
            unit_of[k] = unit
        log("[%s] unit %s: %d harnesses in %.0fs" % (pid, unit["name"], len(res), meta.get("wall_s", 0)))
        if meta.get("error"):
            log("[%s] unit %s: %s\n%s" % (pid, unit["name"], meta["error"], meta.get("tail", "")))

    known = load_known()
    reproduced_findings = {}
    violations = 0
    inconclusive = []
    known_hits = []
    viol_lines = []
    for n, r in sorted(all_results.items()):
        st = r["status"]
        log("  %-60s %-12s %6.1fs checks=%s failed=%s covers=%s/%s %s" % (
            n, st, r.get("duration_s", 0) or 0, r.get("checks_total"), r.get("checks_failed"),
            r.get("covers_satisfied"), (r.get("covers_satisfied", 0) or 0) + (r.get("covers_unsatisfiable", 0) or 0),
            r.get("why", "")))
        if st in ("inconclusive", "vacuous"):
            inconclusive.append(n)
        elif st == "failed" and match_known(known, pid, n, r["failed"]) is not None and all(
                e["id"] in reproduced_findings for e in match_known(known, pid, n, r["failed"])):
            # every failed assertion carries the marker of a finding whose input class was already
            # extracted and reproduced natively in this run (by another harness): no second replay
            es = match_known(known, pid, n, r["failed"])
            r["status"] = "known_finding"
            r["replay_file"] = reproduced_findings[es[0]["id"]]
            r["why"] = "same finding as reproduced by " + os.path.basename(r["replay_file"])
            for e in es:
                known_hits.append((e, n))
        elif st == "failed":
            unit = unit_of[n]
            d = crate_dir(unit) if unit["kind"] == "external" else os.path.join(WORK, "shadow", unit["shadow"]["name"])
            path, nvals, pout = extract_counterexample(unit, d, n, pid)
            r["replay_file"] = path
            r["replay_values"] = nvals
            ok_dev, out_dev, short = native_replay(unit, d, n, path, release=False)
            r["replayed_dev"] = ok_dev
            if ok_dev:
                ok_rel, out_rel, _ = native_replay(unit, d, n, path, release=True)
                r["replayed_release"] = ok_rel
            if not ok_dev:
                r["status"] = "inconclusive"
                r["why"] = "solver counterexample did not reproduce natively (encoding or stub problem)"
                with open(path + ".native.log", "w") as fh:
                    fh.write(out_dev)
                inconclusive.append(n)
                log("    counterexample did NOT reproduce natively: see %s.native.log" % path)
                continue
            m = re.findall(r"panicked at [^\n]*\n([^\n]*)", out_dev)
            r["native_panic"] = m[-1].strip() if m else ""
            es = match_known(known, pid, n, r["failed"])
            if es is not None:
                r["status"] = "known_finding"
                for e in es:
                    reproduced_findings.setdefault(e["id"], path)
                    if not any(e is k for k, _ in known_hits):
                        log("KNOWN-FINDING: property=%s %s" % (pid, e["what"]))
                    known_hits.append((e, n))
                log("    (known finding %s reproduced by harness %s, replay=%s)" % (es[0]["id"], short, path))
            else:
                violations += 1
                viol_lines.append("VIOLATION property=%s replay=%s" % (pid, path))
                log("    failed checks: %s" % "; ".join(d[0] for d in r["failed"][:4]))
                log("    native replay: %s" % r["native_panic"])

    # one decoded solver witness (a concrete input of a class) for the evidence samples
    witnesses = []
    cands = [(r.get("duration_s") or 1e9, n) for n, r in all_results.items()
             if r.get("status") == "verified" and (r.get("covers_satisfied") or 0) > 0]
    if cands and not args.only:
        _, n = min(cands)
        unit = unit_of[n]
        d = crate_dir(unit) if unit["kind"] == "external" else os.path.join(WORK, "shadow", unit["shadow"]["name"])
        try:
            witnesses = witness_sample(unit, d, n)
        except Exception as e:  # evidence nicety only
            witnesses = [{"error": str(e)}]
    wall = time.time() - t0
    write_evidence(pid, tier, seed, spec, all_results, metas, wall, violations,
                   extra={"known_findings_hit": sorted(set(e["id"] for e, _ in known_hits)),
                          "inconclusive": inconclusive,
                          "solver_witnesses": witnesses})
    for l in viol_lines:
        log(l)
    if violations:
        return 1
    if inconclusive or not all_results:
        log("[%s] INCONCLUSIVE: %d harness(es) not decided: %s" % (pid, len(inconclusive), ", ".join(inconclusive[:8])))
        return 2
    log("[%s] held: %d harnesses verified (%s tier) in %.0fs" % (pid, len(all_results), tier, wall))
    return 0


def do_replay(pid, spec, path):
    head = open(path).readline()
    m = re.search(r"harness=(\S+) unit=(\S+)", head)
    if not m:
        log("not a replay file: %s" % path)
        return 2
    fq, uname = m.group(1), m.group(2)
    unit = [u for u in spec["units"] if u["name"] == uname][0]
    d = crate_dir(unit)
    ok, out, short = native_replay(unit, d, fq, os.path.abspath(path))
    log(out[-1500:])
    if ok:
        log("VIOLATION property=%s replay=%s" % (pid, path))
        return 1
    log("replay did not fail: the property holds on this input for the current tree")
    return 0


if __name__ == "__main__":
    sys.exit(main())
