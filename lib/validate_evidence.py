#!/usr/bin/env python3
"""validate_evidence.py [ids...] — validate evidence/<id>.json against /root/.vp/EVIDENCE.schema.json
and MANIFEST.json against its schema (run with python3-vt: needs jsonschema). Exit 1 on any invalid file."""
import glob
import json
import os
import sys

import jsonschema

VERIF = os.path.dirname(os.path.dirname(os.path.abspath(__file__)))
schema = json.load(open("/root/.vp/EVIDENCE.schema.json"))
ids = sys.argv[1:] or [c["property_id"] for c in json.load(open(os.path.join(VERIF, "MANIFEST.json")))["checks"]]
bad = 0
for i in ids:
    f = os.path.join(VERIF, "evidence", i + ".json")
    if not os.path.exists(f):
        print("%s: MISSING" % f)
        bad += 1
        continue
    d = json.load(open(f))
    errs = list(jsonschema.Draft202012Validator(schema).iter_errors(d))
    c = d["coverage"]
    print("%s: %s tier=%s seed=%s evaluations=%s distinct_nontrivial=%s violations=%s" % (
        i, "INVALID" if errs else "valid", d["tier"], d["seed"], c.get("evaluations"),
        c.get("distinct_nontrivial"), d.get("violations")))
    for e in errs[:5]:
        print("   ", e.message[:200])
    bad += 1 if errs else 0
m = json.load(open(os.path.join(VERIF, "MANIFEST.json")))
ms = json.load(open("/root/.vp/MANIFEST.schema.json"))
errs = list(jsonschema.Draft202012Validator(ms).iter_errors(m))
print("MANIFEST.json: %s" % ("INVALID" if errs else "valid"))
for e in errs[:5]:
    print("   ", e.message[:200])
sys.exit(1 if bad or errs else 0)
