#!/usr/bin/env python3
"""Warm builds (native + Kani codegen) of every harness crate."""
import os
import subprocess
import sys

VERIF = os.path.dirname(os.path.dirname(os.path.abspath(__file__)))
sys.path.insert(0, os.path.join(VERIF, "lib"))
import driver  # noqa: E402
import props  # noqa: E402

seen = set()
rc_all = 0
for pid, spec in props.PROPS.items():
    for unit in spec["units"]:
        if unit["name"] in seen:
            continue
        seen.add(unit["name"])
        d = driver.crate_dir(unit)
        tdir = os.path.join(driver.WORK, "kani-" + unit["name"])
        cmd = ["cargo", "kani", "--target-dir", tdir, "--only-codegen"] + unit.get("kani_args", [])
        for z in unit.get("kani_z", []):
            cmd += ["-Z", z]
        rc, out, secs = driver.sh(cmd, cwd=d, timeout=1800)
        print("[setup] kani codegen %-12s rc=%d %.0fs" % (unit["name"], rc, secs), flush=True)
        if rc != 0:
            print(out[-3000:])
            rc_all = 1
sys.exit(rc_all)
