#!/bin/bash
# sweep.sh [quick|thorough] [ids...] : run the registered checks one after another, print exit codes.
tier=${1:-quick}; shift
ids="$@"
cd "$(dirname "$0")/.."
[ -z "$ids" ] && ids=$(python3 -c "import json;print(' '.join(c['property_id'] for c in json.load(open('MANIFEST.json'))['checks']))")
mkdir -p .work
for p in $ids; do
  s=$(date +%s)
  ./check $p --tier $tier > .work/sweep-$p-$tier.log 2>&1; rc=$?
  echo "$p $tier exit=$rc $(( $(date +%s) - s ))s $(grep -E 'held:|VIOLATION|KNOWN-FINDING|INCONCLUSIVE' .work/sweep-$p-$tier.log | cut -c1-110 | head -3 | tr '\n' ' ')"
done
