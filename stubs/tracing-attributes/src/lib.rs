//! `#[instrument(..)]` that returns the annotated item unchanged.
extern crate proc_macro;
use proc_macro::TokenStream;

#[proc_macro_attribute]
pub fn instrument(_args: TokenStream, item: TokenStream) -> TokenStream {
    item
}
