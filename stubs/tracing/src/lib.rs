//! No-op `tracing`: the macros evaluate nothing (as with no subscriber installed at a disabled
//! level), `#[instrument]` returns the item unchanged.
pub use tracing_attributes::instrument;

pub struct Span;
pub struct Entered;
impl Span {
    #[inline]
    pub fn enter(&self) -> Entered {
        Entered
    }
    #[inline]
    pub fn entered(self) -> Entered {
        Entered
    }
    #[inline]
    pub fn none() -> Span {
        Span
    }
}

#[macro_export]
macro_rules! debug { ($($t:tt)*) => {{}}; }
#[macro_export]
macro_rules! info { ($($t:tt)*) => {{}}; }
#[macro_export]
macro_rules! trace { ($($t:tt)*) => {{}}; }
#[macro_export]
macro_rules! warn { ($($t:tt)*) => {{}}; }
#[macro_export]
macro_rules! error { ($($t:tt)*) => {{}}; }
#[macro_export]
macro_rules! debug_span { ($($t:tt)*) => { $crate::Span }; }
#[macro_export]
macro_rules! info_span { ($($t:tt)*) => { $crate::Span }; }
#[macro_export]
macro_rules! trace_span { ($($t:tt)*) => { $crate::Span }; }

pub mod subscriber {
    pub fn with_default<S, T>(_s: &S, f: impl FnOnce() -> T) -> T {
        f()
    }
}
