#!/bin/sh
# Offline setup after a fresh restore: warm the Kani build of the harness crates so that the
# first check does not pay for compiling chalk's dependencies, and validate the harness-side
# oracles natively. Everything is rebuilt from files on disk (cargo registry cache, /repo).
set -e
cd "$(dirname "$0")"
export CARGO_NET_OFFLINE=true
mkdir -p .work
python3 lib/mkmanifest.py >/dev/null
python3 lib/setup.py
