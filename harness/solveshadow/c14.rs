//! NOT REFERENCED BY ANY CHECK (kept for the record, DESIGN.md B18: does not finish under CBMC).
//! C14 / C15 — one call of `InferenceTable::relate` (chalk-solve/src/infer/unify.rs; this module
//! is appended to a copy of that file) on a class of type pairs, at invariant variance.
//!
//! A class fixes the shape of both types and the kind of each leaf (unknown created in a
//! symbolic universe, integer / float unknown, placeholder in a symbolic universe, ground leaf
//! with a symbolic id, scalar of a symbolic kind); the oracle is first-order unification with
//! universes, written out per class:
//!   * success exactly when a unifier exists that respects the universes (C14, both directions);
//!   * on success both types are equal after substituting the table's bindings, and unknowns
//!     that were unified have the minimum of their universes (C14);
//!   * on failure every unknown is exactly as before: unbound, same universe (C15);
//!   * the verdict does not depend on the order of the two types (C15) — every class is run in
//!     both orders on tables built identically.

use super::*;
use vinterner::gen::*;
use vinterner::*;
use vinterner::{cover, sharness};

type VI = VInterner;

#[derive(Debug)]
struct NoUDb;
impl UnificationDatabase<VI> for NoUDb {
    fn fn_def_variance(&self, _: FnDefId<VI>) -> Variances<VI> {
        unimplemented!()
    }
    fn adt_variance(&self, _: AdtId<VI>) -> Variances<VI> {
        unimplemented!()
    }
}

fn uni(n: u8) -> UniverseIndex {
    UniverseIndex { counter: n as usize }
}

/// the state of an unknown: Err(universe) when unbound, Ok(type) when bound
fn state(table: &mut InferenceTable<VI>, v: EnaVariable<VI>) -> Result<Ty<VI>, UniverseIndex> {
    match table.unify.probe_value(v) {
        InferenceValue::Unbound(ui) => Err(ui),
        InferenceValue::Bound(g) => Ok(*g.assert_ty_ref(I)),
    }
}

fn relate(table: &mut InferenceTable<VI>, a: &Ty<VI>, b: &Ty<VI>, flip: bool) -> bool {
    let env = Environment::new(I);
    let db = NoUDb;
    let r = if flip {
        table.relate(I, &db, &env, Variance::Invariant, b, a)
    } else {
        table.relate(I, &db, &env, Variance::Invariant, a, b)
    };
    match r {
        Ok(rr) => {
            assert!(rr.goals.is_empty(), "C14: obligations returned for lifetime-free, alias-free types");
            std::mem::forget(rr);
            true
        }
        Err(_) => false,
    }
}

/// `?v` (universe U) against a placeholder (universe P): unifiable iff U can name P.
fn var_placeholder(flip: bool) {
    let mut table: InferenceTable<VI> = InferenceTable::new();
    let u = sym::below(8);
    let ph = PlaceholderIndex { ui: uni(sym::below(8)), idx: sym::usize() };
    let v = table.new_variable(uni(u));
    let a = v.to_ty(I);
    let b = ty(TyKind::Placeholder(ph));
    let ok = relate(&mut table, &a, &b, flip);
    assert!(ok == (u as usize >= ph.ui.counter), "C14: unknown and placeholder unify exactly when the unknown's universe can name the placeholder");
    let st = state(&mut table, v);
    if ok {
        assert!(st == Ok(b), "C14: successful unification does not make the two types equal");
    } else {
        assert!(st == Err(uni(u)), "C15: failed unification changed an unknown");
    }
    std::mem::forget(table);
    cover!(ok);
    cover!(!ok);
}
sharness!(c14_q_var_placeholder, 8, { var_placeholder(false) });
sharness!(c14_q_var_placeholder_flipped, 8, { var_placeholder(true) });

/// `(?v, F(i))` against `(F(j), F(k))`: unifiable iff i == k; the first component binds `?v`
/// before the second is compared, so failure exercises the rollback.
fn tuple_rollback(flip: bool) {
    let mut table: InferenceTable<VI> = InferenceTable::new();
    let u = sym::below(8);
    let v = table.new_variable(uni(u));
    let (i, j, k) = (sym::u64(), sym::u64(), sym::u64());
    let a = ty(TyKind::Tuple(2, subst(&[ga_ty(v.to_ty(I)), ga_ty(foreign(i))])));
    let fj = foreign(j);
    let b = ty(TyKind::Tuple(2, subst(&[ga_ty(fj), ga_ty(foreign(k))])));
    let ok = relate(&mut table, &a, &b, flip);
    assert!(ok == (i == k), "C14: tuples unify exactly when their components do");
    let st = state(&mut table, v);
    if ok {
        assert!(st == Ok(fj), "C14: successful unification does not make the two types equal");
    } else {
        assert!(st == Err(uni(u)), "C15: failed unification left an unknown bound");
    }
    std::mem::forget(table);
    cover!(ok);
    cover!(!ok);
}
sharness!(c14_q_tuple_rollback, 8, { tuple_rollback(false) });
sharness!(c14_q_tuple_rollback_flipped, 8, { tuple_rollback(true) });

fn probe_a() {
    let mut table: InferenceTable<VI> = InferenceTable::new();
    let u = sym::below(8);
    let ph = PlaceholderIndex { ui: uni(sym::below(8)), idx: sym::usize() };
    let v = table.new_variable(uni(u));
    let a = v.to_ty(I);
    let b = ty(TyKind::Placeholder(ph));
    let env = Environment::new(I);
    let db = NoUDb;
    let ok = {
        let mut un = Unifier::new(I, &db, &mut table, &env);
        let r = un.relate_ty_ty(Variance::Invariant, &a, &b).is_ok();
        std::mem::forget(un.goals);
        r
    };
    assert!(ok == (u as usize >= ph.ui.counter));
    std::mem::forget(table);
}
sharness!(c14_q_probe_a, 8, { probe_a() });

fn probe_b() {
    let mut table: InferenceTable<VI> = InferenceTable::new();
    let u = sym::below(8);
    let v = table.new_variable(uni(u));
    let snap = table.snapshot();
    let w = table.new_variable(uni(3));
    table.unify.unify_var_value(v, InferenceValue::from_ty(I, foreign(1))).unwrap();
    table.rollback_to(snap);
    assert!(state(&mut table, v) == Err(uni(u)));
    let _ = w;
    std::mem::forget(table);
}
sharness!(c14_q_probe_b, 8, { probe_b() });
