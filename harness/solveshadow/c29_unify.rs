//! C29, last clause — "the lifetime requirements it returns are equivalent to those dictated by
//! the variance of each position": one step of `Unifier::relate_lifetime_lifetime` with
//! `unify_lifetime_var` and `push_lifetime_outlives_goals` (chalk-solve/src/infer/unify.rs,
//! private; this module is appended to a copy of that file).
//!
//! A class fixes the *kind* of each side (unbound variable, variable already bound to a
//! placeholder, placeholder, `'static`, erased, error); the variance, the universes of the
//! variables and the placeholders' universe / index are symbolic. Oracle, written from the
//! property: relating `a` to `b` at variance `v` demands `b: a` when `v` is covariant or
//! invariant and `a: b` when `v` is contravariant or invariant (the orientation chalk uses for
//! the non-variable arm `push_lifetime_outlives_goals(v, a, b)`); an unbound variable may instead
//! be *bound* to the other side, which is only sound at invariant variance and when the
//! variable's universe can name the value; equal sides demand nothing; an error side demands
//! nothing.

use super::*;
use vinterner::gen::*;
use vinterner::*;
use vinterner::{cover, sharness};

type VI = VInterner;

#[derive(Debug)]
struct NoUDb;
impl UnificationDatabase<VI> for NoUDb {
    fn fn_def_variance(&self, _: FnDefId<VI>) -> Variances<VI> {
        unimplemented!()
    }
    fn adt_variance(&self, _: AdtId<VI>) -> Variances<VI> {
        unimplemented!()
    }
}

pub const VAR: usize = 0;
pub const PLACEHOLDER: usize = 1;
pub const STATIC: usize = 2;
pub const ERASED: usize = 3;
pub const ERROR: usize = 4;
pub const BOUND_VAR: usize = 5; // inference variable already bound to a placeholder

/// (lifetime handed to the unifier, what it stands for after shallow normalisation, universe of
/// the value / of the unbound variable)
struct Side {
    given: Lifetime<VI>,
    norm: Lifetime<VI>,
    ui: UniverseIndex,
}

fn mk_side(table: &mut InferenceTable<VI>, kind: usize) -> Side {
    match kind {
        VAR => {
            let ui = UniverseIndex { counter: sym::below(8) as usize };
            let v = table.new_variable(ui);
            let l = v.to_lifetime(I);
            Side { given: l, norm: l, ui }
        }
        PLACEHOLDER => {
            let ph = PlaceholderIndex { ui: UniverseIndex { counter: sym::below(8) as usize }, idx: sym::usize() };
            let l = lt(LifetimeData::Placeholder(ph));
            Side { given: l, norm: l, ui: ph.ui }
        }
        STATIC => {
            let l = lt(LifetimeData::Static);
            Side { given: l, norm: l, ui: UniverseIndex::ROOT }
        }
        ERASED => {
            let l = lt(LifetimeData::Erased);
            Side { given: l, norm: l, ui: UniverseIndex::ROOT }
        }
        ERROR => {
            let l = lt(LifetimeData::Error);
            Side { given: l, norm: l, ui: UniverseIndex::ROOT }
        }
        _ => {
            let ph = PlaceholderIndex { ui: UniverseIndex { counter: sym::below(8) as usize }, idx: sym::usize() };
            let p = lt(LifetimeData::Placeholder(ph));
            let v = table.new_variable(UniverseIndex { counter: 7 });
            table
                .unify
                .unify_var_value(v, InferenceValue::from_lifetime(I, p))
                .unwrap();
            Side { given: v.to_lifetime(I), norm: p, ui: ph.ui }
        }
    }
}

fn run(ka: usize, kb: usize) {
    run_v(ka, kb, sym_variance())
}
fn run_v(ka: usize, kb: usize, variance: Variance) {
    let mut table: InferenceTable<VI> = InferenceTable::new();
    // The unifier's (empty) goal list is created here, before anything is interned, and the
    // `Unifier` is built as a struct literal — `Unifier::new` does exactly this field
    // initialisation, only later: a `Vec::new()` that follows a write to the interner's static
    // arenas makes CBMC report the first `push` as a write through an invalid pointer in some
    // checkout directories (DESIGN.md B19).
    let goals0: Vec<InEnvironment<Goal<VI>>> = Vec::new();
    let a = mk_side(&mut table, ka);
    let b = mk_side(&mut table, kb);
    let env = Environment::new(I);
    let db = NoUDb;
    obs::start();
    let (res, n, g0, g1) = {
        let mut u = Unifier { table: &mut table, environment: &env, goals: goals0, interner: I, db: &db };
        let res = u.relate_lifetime_lifetime(variance, &a.given, &b.given);
        let n = u.goals.len();
        // The returned goals are identified with the goals interned during the call by their
        // number (the unifier has no other source of goals); their content is read from the
        // interner's observation log, not from the `Vec` (a pointer read back from the heap and
        // compared with the arena slot costs minutes, B17).
        assert!(n == obs::len(), "C29: returned goals are not the goals built during this call");
        let g0 = if n > 0 { obs::get(0).1 } else { None };
        let g1 = if n > 1 { obs::get(1).1 } else { None };
        std::mem::forget(u.goals);
        (res, n, g0, g1)
    };
    assert!(res.is_ok(), "C29: relating two lifetimes must not fail structurally");
    assert!(n <= 2);
    assert!(n < 1 || g0.is_some(), "C29: a returned requirement is not a lifetime-outlives goal");
    assert!(n < 2 || g1.is_some(), "C29: a returned requirement is not a lifetime-outlives goal");

    // what the two sides stand for now
    let na = table.normalize_lifetime_shallow(I, &a.given).unwrap_or(a.given);
    let nb = table.normalize_lifetime_shallow(I, &b.given).unwrap_or(b.given);
    let a_unbound = ka == VAR;
    let b_unbound = kb == VAR;

    // demanded requirements, as (longer, shorter) pairs over the normalised sides
    let want_b_a = matches!(variance, Variance::Covariant | Variance::Invariant);
    let want_a_b = matches!(variance, Variance::Contravariant | Variance::Invariant);
    let has = |x: Lifetime<VI>, y: Lifetime<VI>| g0 == Some((x, y)) || g1 == Some((x, y));

    let error_side = ka == ERROR || kb == ERROR;
    if a_unbound && b_unbound {
        // two unknowns: chalk equates them (sound for every variance: equal lifetimes outlive each other)
        assert!(n == 0);
        let ra = table.unify.find(EnaVariable::from(a.given.inference_var(I).unwrap()));
        let rb = table.unify.find(EnaVariable::from(b.given.inference_var(I).unwrap()));
        assert!(ra == rb, "C29: two unknown lifetimes related but neither equated nor constrained");
    } else if a.norm == b.norm {
        // equal sides (never with an unbound variable on one side only)
        assert!(n == 0 || (has(a.norm, b.norm) && n <= 2), "C29: requirements between equal lifetimes");
    } else if a_unbound || b_unbound {
        let (var_side, val_side, var_now) = if a_unbound { (&a, &b, na) } else { (&b, &a, nb) };
        let bound = var_now != var_side.given;
        if bound {
            assert!(var_now == val_side.norm, "C29: unknown lifetime bound to something else than the other side");
            assert!(
                matches!(variance, Variance::Invariant),
                "C29: unknown lifetime equated with the other side at a non-invariant position"
            );
            assert!(
                var_side.ui.counter >= val_side.ui.counter,
                "C29: unknown lifetime bound to a placeholder its universe cannot name"
            );
            assert!(n == 0);
        } else {
            // constrained instead: exactly the requirements the variance dictates
            assert!(n == want_b_a as usize + want_a_b as usize, "C29: wrong number of lifetime requirements for the variance");
            assert!(!want_b_a || has(b.norm, a.norm), "C29: missing requirement b: a at a covariant / invariant position");
            assert!(!want_a_b || has(a.norm, b.norm), "C29: missing requirement a: b at a contravariant / invariant position");
        }
    } else if error_side {
        assert!(n == 0, "C29: requirements involving an error lifetime");
    } else {
        assert!(n == want_b_a as usize + want_a_b as usize, "C29: wrong number of lifetime requirements for the variance");
        assert!(!want_b_a || has(b.norm, a.norm), "C29: missing requirement b: a at a covariant / invariant position");
        assert!(!want_a_b || has(a.norm, b.norm), "C29: missing requirement a: b at a contravariant / invariant position");
    }
    std::mem::forget(table);
    cover!(true);
}


/// `&ma 'la F(i)` related to `&mb 'lb F(j)` through `relate_ty_ty`: the reference rule composes
/// `Variance::xform`, the lifetime step above and the pointee relation. Oracle from Rust's
/// subtyping of references: `&'a T <: &'b T` needs `'a: 'b` (and the converse at contravariant
/// positions, both at invariant ones); differing mutability or pointee never relate.
fn ref_step(ma: Mutability, mb: Mutability, kla: usize, klb: usize) {
    let variance = sym_variance();
    let mut table: InferenceTable<VI> = InferenceTable::new();
    // The unifier's (empty) goal list is created here, before anything is interned, and the
    // `Unifier` is built as a struct literal — `Unifier::new` does exactly this field
    // initialisation, only later: a `Vec::new()` that follows a write to the interner's static
    // arenas makes CBMC report the first `push` as a write through an invalid pointer in some
    // checkout directories (DESIGN.md B19).
    let goals0: Vec<InEnvironment<Goal<VI>>> = Vec::new();
    let la = mk_side(&mut table, kla);
    let lb = mk_side(&mut table, klb);
    let (i, j) = (sym::u64(), sym::u64());
    let ta = ty(TyKind::Ref(ma, la.given, foreign(i)));
    let tb = ty(TyKind::Ref(mb, lb.given, foreign(j)));
    let env = Environment::new(I);
    let db = NoUDb;
    obs::start();
    let (res, n) = {
        let mut u = Unifier { table: &mut table, environment: &env, goals: goals0, interner: I, db: &db };
        let res = u.relate_ty_ty(variance, &ta, &tb);
        let n = u.goals.len();
        std::mem::forget(u.goals);
        (res, n)
    };
    let structurally = ma == mb && i == j;
    assert!(res.is_ok() == structurally, "C29: references relate exactly when mutability and pointee agree");
    if res.is_ok() {
        assert!(n == obs::len(), "C29: returned goals are not the goals built during this call");
        let g0 = if n > 0 { obs::get(0).1 } else { None };
        let g1 = if n > 1 { obs::get(1).1 } else { None };
        assert!(n < 1 || g0.is_some());
        assert!(n < 2 || g1.is_some());
        assert!(n <= 2);
        let has = |x: Lifetime<VI>, y: Lifetime<VI>| g0 == Some((x, y)) || g1 == Some((x, y));
        let want_a_b = matches!(variance, Variance::Covariant | Variance::Invariant);
        let want_b_a = matches!(variance, Variance::Contravariant | Variance::Invariant);
        if la.norm == lb.norm {
            assert!(n == 0 || has(la.norm, lb.norm), "C29: requirements between equal lifetimes");
        } else {
            assert!(n == want_a_b as usize + want_b_a as usize, "C29: wrong number of lifetime requirements for a reference");
            assert!(!want_a_b || has(la.norm, lb.norm), "C29: &'a T <: &'b T without 'a: 'b");
            assert!(!want_b_a || has(lb.norm, la.norm), "C29: &'b T <: &'a T (contravariant / invariant position) without 'b: 'a");
        }
    }
    std::mem::forget(table);
    cover!(true);
}
sharness!(c29_q_unify_ref_not_not_ph_ph, 8, { ref_step(Mutability::Not, Mutability::Not, PLACEHOLDER, PLACEHOLDER) });
sharness!(c29_q_unify_ref_mut_mut_ph_static, 8, { ref_step(Mutability::Mut, Mutability::Mut, PLACEHOLDER, STATIC) });
sharness!(c29_q_unify_ref_not_mut_ph_ph, 8, { ref_step(Mutability::Not, Mutability::Mut, PLACEHOLDER, PLACEHOLDER) });
sharness!(c29_t_unify_ref_mut_not_static_ph, 8, { ref_step(Mutability::Mut, Mutability::Not, STATIC, PLACEHOLDER) });
sharness!(c29_t_unify_ref_not_not_static_ph, 8, { ref_step(Mutability::Not, Mutability::Not, STATIC, PLACEHOLDER) });
sharness!(c29_t_unify_ref_mut_mut_ph_ph, 8, { ref_step(Mutability::Mut, Mutability::Mut, PLACEHOLDER, PLACEHOLDER) });
sharness!(c29_t_unify_ref_not_not_erased_static, 8, { ref_step(Mutability::Not, Mutability::Not, ERASED, STATIC) });
sharness!(c29_t_unify_ref_not_not_bound_ph, 8, { ref_step(Mutability::Not, Mutability::Not, BOUND_VAR, PLACEHOLDER) });

/// Declared variances: `Adt<'la>` / `FnDef<'la>` related to the same constructor over `'lb`,
/// the one declared variance coming from the (stub) unification database and symbolic. The
/// effective variance is the sign product of the ambient and the declared one, computed here
/// from signs, not with `Variance::xform`.
#[derive(Debug)]
struct VarDb(Variance);
impl UnificationDatabase<VI> for VarDb {
    fn fn_def_variance(&self, _: FnDefId<VI>) -> Variances<VI> {
        Variances::from1(I, self.0)
    }
    fn adt_variance(&self, _: AdtId<VI>) -> Variances<VI> {
        Variances::from1(I, self.0)
    }
}
fn sign(v: Variance) -> i32 {
    match v {
        Variance::Covariant => 1,
        Variance::Invariant => 0,
        Variance::Contravariant => -1,
    }
}
fn declared_step(fn_def: bool, same_id: bool, kla: usize, klb: usize) {
    let ambient = sym_variance();
    let declared = sym_variance();
    let mut table: InferenceTable<VI> = InferenceTable::new();
    // The unifier's (empty) goal list is created here, before anything is interned, and the
    // `Unifier` is built as a struct literal — `Unifier::new` does exactly this field
    // initialisation, only later: a `Vec::new()` that follows a write to the interner's static
    // arenas makes CBMC report the first `push` as a write through an invalid pointer in some
    // checkout directories (DESIGN.md B19).
    let goals0: Vec<InEnvironment<Goal<VI>>> = Vec::new();
    let la = mk_side(&mut table, kla);
    let lb = mk_side(&mut table, klb);
    let (i, j) = if same_id { (7, 7) } else { (1, 2) };
    let mk = |id: u64, l: Lifetime<VI>| {
        let args = subst(&[ga_lt(l)]);
        if fn_def {
            ty(TyKind::FnDef(FnDefId(did(id)), args))
        } else {
            ty(TyKind::Adt(adt_id(id), args))
        }
    };
    let ta = mk(i, la.given);
    let tb = mk(j, lb.given);
    let env = Environment::new(I);
    let db = VarDb(declared);
    obs::start();
    let (res, n) = {
        let mut u = Unifier { table: &mut table, environment: &env, goals: goals0, interner: I, db: &db };
        let res = u.relate_ty_ty(ambient, &ta, &tb);
        let n = u.goals.len();
        std::mem::forget(u.goals);
        (res, n)
    };
    assert!(res.is_ok() == same_id, "C29: nominal types relate exactly when their ids agree");
    if res.is_ok() {
        assert!(n == obs::len(), "C29: returned goals are not the goals built during this call");
        let g0 = if n > 0 { obs::get(0).1 } else { None };
        let g1 = if n > 1 { obs::get(1).1 } else { None };
        assert!(n < 1 || g0.is_some());
        assert!(n < 2 || g1.is_some());
        assert!(n <= 2);
        let has = |x: Lifetime<VI>, y: Lifetime<VI>| g0 == Some((x, y)) || g1 == Some((x, y));
        // a covariant lifetime position behaves like a type position: T<'a> <: T<'b> needs the
        // relation chalk writes `'b: 'a` for its lifetime step at covariant variance (checked
        // against the non-variable arm in the kind x kind classes below)
        let eff = sign(ambient) * sign(declared);
        let want_b_a = eff >= 0;
        let want_a_b = eff <= 0;
        if la.norm == lb.norm {
            assert!(n == 0 || has(la.norm, lb.norm), "C29: requirements between equal lifetimes");
        } else {
            assert!(n == want_a_b as usize + want_b_a as usize, "C29: wrong number of lifetime requirements for the declared variance");
            assert!(!want_b_a || has(lb.norm, la.norm), "C29: missing requirement for a covariant / invariant declared position");
            assert!(!want_a_b || has(la.norm, lb.norm), "C29: missing requirement for a contravariant / invariant declared position");
        }
    }
    std::mem::forget(table);
    cover!(true);
}
sharness!(c29_q_unify_adt_declared_ph_ph, 8, { declared_step(false, true, PLACEHOLDER, PLACEHOLDER) });
sharness!(c29_q_unify_fndef_declared_ph_static, 8, { declared_step(true, true, PLACEHOLDER, STATIC) });
sharness!(c29_t_unify_adt_declared_diff_id, 8, { declared_step(false, false, PLACEHOLDER, PLACEHOLDER) });
sharness!(c29_t_unify_fndef_declared_ph_ph, 8, { declared_step(true, true, PLACEHOLDER, PLACEHOLDER) });
sharness!(c29_t_unify_adt_declared_static_ph, 8, { declared_step(false, true, STATIC, PLACEHOLDER) });

// kind x kind: 36 classes; variance, universes and placeholder payloads symbolic in each
sharness!(c29_q_unify_lt_var_var, 8, { run(VAR, VAR) });
sharness!(c29_t_unify_lt_var_bound, 8, { run(VAR, BOUND_VAR) });
sharness!(c29_q_unify_lt_var_placeholder, 8, { run(VAR, PLACEHOLDER) });
sharness!(c29_q_unify_lt_var_static, 8, { run(VAR, STATIC) });
sharness!(c29_t_unify_lt_var_erased, 8, { run(VAR, ERASED) });
sharness!(c29_q_unify_lt_var_error, 8, { run(VAR, ERROR) });
sharness!(c29_q_unify_lt_bound_var, 8, { run(BOUND_VAR, VAR) });
sharness!(c29_t_unify_lt_bound_bound, 8, { run(BOUND_VAR, BOUND_VAR) });
sharness!(c29_t_unify_lt_bound_placeholder, 8, { run(BOUND_VAR, PLACEHOLDER) });
sharness!(c29_t_unify_lt_bound_static, 8, { run(BOUND_VAR, STATIC) });
sharness!(c29_t_unify_lt_bound_erased, 8, { run(BOUND_VAR, ERASED) });
sharness!(c29_t_unify_lt_bound_error, 8, { run(BOUND_VAR, ERROR) });
sharness!(c29_q_unify_lt_placeholder_var, 8, { run(PLACEHOLDER, VAR) });
sharness!(c29_q_unify_lt_placeholder_bound, 8, { run(PLACEHOLDER, BOUND_VAR) });
sharness!(c29_q_unify_lt_placeholder_placeholder, 8, { run(PLACEHOLDER, PLACEHOLDER) });
sharness!(c29_t_unify_lt_placeholder_static, 8, { run(PLACEHOLDER, STATIC) });
sharness!(c29_t_unify_lt_placeholder_erased, 8, { run(PLACEHOLDER, ERASED) });
sharness!(c29_t_unify_lt_placeholder_error, 8, { run(PLACEHOLDER, ERROR) });
sharness!(c29_q_unify_lt_static_var, 8, { run(STATIC, VAR) });
sharness!(c29_t_unify_lt_static_bound, 8, { run(STATIC, BOUND_VAR) });
sharness!(c29_q_unify_lt_static_placeholder, 8, { run(STATIC, PLACEHOLDER) });
sharness!(c29_t_unify_lt_static_static, 8, { run(STATIC, STATIC) });
sharness!(c29_q_unify_lt_static_erased, 8, { run(STATIC, ERASED) });
sharness!(c29_t_unify_lt_static_error, 8, { run(STATIC, ERROR) });
sharness!(c29_q_unify_lt_erased_var, 8, { run(ERASED, VAR) });
sharness!(c29_t_unify_lt_erased_bound, 8, { run(ERASED, BOUND_VAR) });
sharness!(c29_t_unify_lt_erased_placeholder, 8, { run(ERASED, PLACEHOLDER) });
sharness!(c29_t_unify_lt_erased_static, 8, { run(ERASED, STATIC) });
sharness!(c29_t_unify_lt_erased_erased, 8, { run(ERASED, ERASED) });
sharness!(c29_t_unify_lt_erased_error, 8, { run(ERASED, ERROR) });
sharness!(c29_t_unify_lt_error_var, 8, { run(ERROR, VAR) });
sharness!(c29_t_unify_lt_error_bound, 8, { run(ERROR, BOUND_VAR) });
sharness!(c29_t_unify_lt_error_placeholder, 8, { run(ERROR, PLACEHOLDER) });
sharness!(c29_t_unify_lt_error_static, 8, { run(ERROR, STATIC) });
sharness!(c29_t_unify_lt_error_erased, 8, { run(ERROR, ERASED) });
sharness!(c29_t_unify_lt_error_error, 8, { run(ERROR, ERROR) });
