//! C19 — coherence checking is total and its accepted priorities are consistent: the priority
//! assignment (`set_priorities`, `SpecializationPriorities::insert`; chalk-solve/src/coherence.rs,
//! private; this module is appended to a copy of that file).
//!
//! The specialization forest is built from a *symbolic* strict partial order on three impls
//! (edge i -> j: impl j specializes impl i, i < j as a topological numbering; transitivity is
//! assumed because specialization of impl headers is transitive), with the real petgraph calls
//! `build_specialization_forest` makes, and the tail of `specialization_priorities` is run on it.
//! Assertions: no panic; every impl of the forest gets a priority; an impl that specializes another
//! has the strictly higher priority.

use super::*;
use crate::rust_ir::*;
use chalk_ir::*;
use vinterner::*;
use vinterner::{cover, sharness};

type VI = VInterner;

#[derive(Debug)]
struct NoDb;
impl RustIrDatabase<VI> for NoDb {
    fn custom_clauses(&self) -> Vec<ProgramClause<VI>> { unimplemented!() }
    fn associated_ty_data(&self, _: AssocTypeId<VI>) -> Arc<AssociatedTyDatum<VI>> { unimplemented!() }
    fn trait_datum(&self, _: TraitId<VI>) -> Arc<TraitDatum<VI>> { unimplemented!() }
    fn adt_datum(&self, _: AdtId<VI>) -> Arc<AdtDatum<VI>> { unimplemented!() }
    fn coroutine_datum(&self, _: CoroutineId<VI>) -> Arc<CoroutineDatum<VI>> { unimplemented!() }
    fn coroutine_witness_datum(&self, _: CoroutineId<VI>) -> Arc<CoroutineWitnessDatum<VI>> { unimplemented!() }
    fn adt_repr(&self, _: AdtId<VI>) -> Arc<AdtRepr<VI>> { unimplemented!() }
    fn adt_size_align(&self, _: AdtId<VI>) -> Arc<AdtSizeAlign> { unimplemented!() }
    fn fn_def_datum(&self, _: FnDefId<VI>) -> Arc<FnDefDatum<VI>> { unimplemented!() }
    fn impl_datum(&self, _: ImplId<VI>) -> Arc<ImplDatum<VI>> { unimplemented!() }
    fn associated_ty_from_impl(&self, _: ImplId<VI>, _: AssocTypeId<VI>) -> Option<AssociatedTyValueId<VI>> { unimplemented!() }
    fn associated_ty_value(&self, _: AssociatedTyValueId<VI>) -> Arc<AssociatedTyValue<VI>> { unimplemented!() }
    fn opaque_ty_data(&self, _: OpaqueTyId<VI>) -> Arc<OpaqueTyDatum<VI>> { unimplemented!() }
    fn hidden_opaque_type(&self, _: OpaqueTyId<VI>) -> Ty<VI> { unimplemented!() }
    fn impls_for_trait(&self, _: TraitId<VI>, _: &[GenericArg<VI>], _: &CanonicalVarKinds<VI>) -> Vec<ImplId<VI>> { unimplemented!() }
    fn local_impls_to_coherence_check(&self, _: TraitId<VI>) -> Vec<ImplId<VI>> { unimplemented!() }
    fn impl_provided_for(&self, _: TraitId<VI>, _: &TyKind<VI>) -> bool { unimplemented!() }
    fn well_known_trait_id(&self, _: WellKnownTrait) -> Option<TraitId<VI>> { unimplemented!() }
    fn well_known_assoc_type_id(&self, _: WellKnownAssocType) -> Option<AssocTypeId<VI>> { unimplemented!() }
    fn program_clauses_for_env(&self, _: &Environment<VI>) -> ProgramClauses<VI> { unimplemented!() }
    fn interner(&self) -> VI { I }
    fn is_object_safe(&self, _: TraitId<VI>) -> bool { unimplemented!() }
    fn closure_kind(&self, _: ClosureId<VI>, _: &Substitution<VI>) -> ClosureKind { unimplemented!() }
    fn closure_inputs_and_output(&self, _: ClosureId<VI>, _: &Substitution<VI>) -> Binders<FnDefInputsAndOutputDatum<VI>> { unimplemented!() }
    fn closure_upvars(&self, _: ClosureId<VI>, _: &Substitution<VI>) -> Binders<Ty<VI>> { unimplemented!() }
    fn closure_fn_substitution(&self, _: ClosureId<VI>, _: &Substitution<VI>) -> Substitution<VI> { unimplemented!() }
    fn unification_database(&self) -> &dyn UnificationDatabase<VI> { unimplemented!() }
    fn discriminant_type(&self, _: Ty<VI>) -> Ty<VI> { unimplemented!() }
}

fn no_solver() -> Box<dyn Solver<VI>> {
    unimplemented!()
}

/// Forest on impls 0, 1, 2 with the given edges (less special -> more special), built with the
/// same petgraph calls as `build_specialization_forest` (nodes are added on first mention).
fn run(e01: bool, e02: bool, e12: bool) {
    let ids = [ImplId(did(100)), ImplId(did(101)), ImplId(did(102))];
    let mut forest: Graph<ImplId<VI>, ()> = DiGraph::new();
    let mut node: [Option<NodeIndex>; 3] = [None; 3];
    let edges = [(0usize, 1usize, e01), (0, 2, e02), (1, 2, e12)];
    for (a, b, on) in edges {
        if on {
            if node[a].is_none() {
                node[a] = Some(forest.add_node(ids[a]));
            }
            if node[b].is_none() {
                node[b] = Some(forest.add_node(ids[b]));
            }
            forest.update_edge(node[a].unwrap(), node[b].unwrap(), ());
        }
    }
    let db = NoDb;
    let builder = || no_solver();
    let solver = CoherenceSolver::new(&db, &builder, TraitId(did(1)));
    // the tail of `specialization_priorities`
    let mut result = SpecializationPriorities::<VI>::new();
    for root_idx in forest.externals(Direction::Incoming) {
        solver.set_priorities(root_idx, &forest, 0, &mut result);
    }
    for (a, b, on) in edges {
        if on {
            assert!(
                result.priority(ids[b]) > result.priority(ids[a]),
                "C19: a specializing impl does not have the higher priority"
            );
        }
    }
    std::mem::forget(result);
    std::mem::forget(forest);
    cover!(true);
}

// every strict partial order on three impls compatible with the numbering (transitively closed)
sharness!(c19_q_prio_single_edge, 8, { run(true, false, false) });
sharness!(c19_q_prio_fork, 8, { run(true, true, false) });
sharness!(c19_q_prio_join, 8, { run(false, true, true) });
sharness!(c19_q_prio_chain, 8, { run(true, true, true) });
sharness!(c19_t_prio_empty, 8, { run(false, false, false) });
sharness!(c19_t_prio_edge_02, 8, { run(false, true, false) });
sharness!(c19_t_prio_edge_12, 8, { run(false, false, true) });
