//! Foldability probes: does CBMC constant-propagate a list length read through a given enum path?
//! Each probe loops `len` times; a concrete length shows as exactly `len` "Unwinding loop" lines.
use chalk_ir::*;
use vinterner::gen::*;
use vinterner::*;

fn args1() -> Substitution<VI> {
    subst(&[ga_ty(foreign(sym::u64()))])
}
fn count(s: &Substitution<VI>) -> usize {
    let mut n = 0;
    for _ in s.iter(I) {
        n += 1;
    }
    n
}
fn tr() -> TraitRef<VI> {
    TraitRef { trait_id: TraitId(did(sym::u64())), substitution: args1() }
}

vharness!(fp_tykind_adt, 6, {
    let t = ty(TyKind::Adt(adt_id(sym::u64()), args1()));
    if let TyKind::Adt(_, s) = t.kind(I) { assert!(count(s) == 1); }
});
vharness!(fp_tykind_fn, 6, {
    let t = ty(TyKind::Function(FnPointer { num_binders: 0, sig: FnSig { abi: VAbi::RUST, safety: Safety::Safe, variadic: false }, substitution: FnSubst(args1()) }));
    if let TyKind::Function(f) = t.kind(I) { assert!(count(&f.substitution.0) == 1); }
});
vharness!(fp_tykind_alias, 6, {
    let t = ty(TyKind::Alias(AliasTy::Projection(ProjectionTy { associated_ty_id: AssocTypeId(did(sym::u64())), substitution: args1() })));
    if let TyKind::Alias(AliasTy::Projection(p)) = t.kind(I) { assert!(count(&p.substitution) == 1); }
});
vharness!(fp_wc_implemented, 6, {
    let w = WhereClause::Implemented(tr());
    if let WhereClause::Implemented(t) = &w { assert!(count(&t.substitution) == 1); }
});
vharness!(fp_dg_holds, 6, {
    let d = DomainGoal::Holds(WhereClause::Implemented(tr()));
    if let DomainGoal::Holds(WhereClause::Implemented(t)) = &d { assert!(count(&t.substitution) == 1); }
});
vharness!(fp_dg_wf, 6, {
    let d = DomainGoal::WellFormed(WellFormed::Trait(tr()));
    if let DomainGoal::WellFormed(WellFormed::Trait(t)) = &d { assert!(count(&t.substitution) == 1); }
});
vharness!(fp_goal_dg, 6, {
    let g: Goal<VI> = Goal::new(I, GoalData::DomainGoal(DomainGoal::Holds(WhereClause::Implemented(tr()))));
    if let GoalData::DomainGoal(DomainGoal::Holds(WhereClause::Implemented(t))) = g.data(I) { assert!(count(&t.substitution) == 1); }
});
vharness!(fp_goal_eq, 6, {
    let g: Goal<VI> = Goal::new(I, GoalData::EqGoal(EqGoal { a: ga_ty(ty(TyKind::Adt(adt_id(1), args1()))), b: ga_ty(foreign(2)) }));
    if let GoalData::EqGoal(e) = g.data(I) {
        if let TyKind::Adt(_, s) = e.a.assert_ty_ref(I).kind(I) { assert!(count(s) == 1); }
    }
});
vharness!(fp_goal_quantified, 6, {
    let inner: Goal<VI> = Goal::new(I, GoalData::EqGoal(EqGoal { a: ga_ty(ty(TyKind::Adt(adt_id(1), args1()))), b: ga_ty(foreign(2)) }));
    let g: Goal<VI> = Goal::new(I, GoalData::Quantified(QuantifierKind::ForAll, Binders::new(VariableKinds::from1(I, VariableKind::Lifetime), inner)));
    if let GoalData::Quantified(_, b) = g.data(I) {
        if let GoalData::EqGoal(e) = b.skip_binders().data(I) {
            if let TyKind::Adt(_, s) = e.a.assert_ty_ref(I).kind(I) { assert!(count(s) == 1); }
        }
    }
});
vharness!(fp_pc, 6, {
    let imp = ProgramClauseImplication { consequence: DomainGoal::Holds(WhereClause::Implemented(tr())), conditions: Goals::empty(I), constraints: Constraints::empty(I), priority: ClausePriority::High };
    let pc = ProgramClause::new(I, ProgramClauseData(Binders::empty(I, imp)));
    if let DomainGoal::Holds(WhereClause::Implemented(t)) = &pc.data(I).0.skip_binders().consequence { assert!(count(&t.substitution) == 1); }
});
vharness!(fp_lifetime_bv, 6, {
    let l = lt(LifetimeData::BoundVar(BoundVar::new(DebruijnIndex::new(1), sym::usize())));
    let mut n = 0;
    if let LifetimeData::BoundVar(b) = l.data(I) { let d = b.debruijn.depth(); let mut i = 0; while i < d { n += 1; i += 1; } }
    assert!(n == 1);
});
vharness!(fp_ga_ty, 6, {
    let g = ga_ty(ty(TyKind::Adt(adt_id(1), args1())));
    if let GenericArgData::Ty(t) = g.data(I) { if let TyKind::Adt(_, s) = t.kind(I) { assert!(count(s) == 1); } }
});
vharness!(fp_const, 6, {
    let c = ConstData { ty: ty(TyKind::Adt(adt_id(1), args1())), value: ConstValue::Concrete(ConcreteConst { interned: sym::u64() }) }.intern(I);
    if let TyKind::Adt(_, s) = c.data(I).ty.kind(I) { assert!(count(s) == 1); }
});

