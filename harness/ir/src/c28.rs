//! C28 — "every returned solution is a well-formed answer for its query": the structural
//! parts that do not need a solver run (DESIGN.md §4.7).
//!
//!  * `UCanonical::trivial_substitution` (the substitution both solvers hand back for
//!    "true for all values of the unknowns" / floundered answers): one entry per unknown of the
//!    query, of the same kind, referring to that unknown only (`^0.i`);
//!  * `Substitution::is_identity_subst` / `UCanonical::is_trivial_substitution` agree with that
//!    definition exactly, for arbitrary entries.

use chalk_ir::*;
use vinterner::gen::*;
use vinterner::*;

fn kind(k: usize) -> VariableKind<VI> {
    match k {
        0 => VariableKind::Ty(TyVariableKind::General),
        1 => VariableKind::Ty(TyVariableKind::Integer),
        2 => VariableKind::Lifetime,
        _ => VariableKind::Const(ty(TyKind::Scalar(Scalar::Uint(UintTy::Usize)))),
    }
}

fn query(k0: usize, k1: usize, k2: usize) -> UCanonical<InEnvironment<Goal<VI>>> {
    let binders = CanonicalVarKinds::from_iter(
        I,
        [
            WithKind::new(kind(k0), UniverseIndex { counter: sym::usize() }),
            WithKind::new(kind(k1), UniverseIndex { counter: sym::usize() }),
            WithKind::new(kind(k2), UniverseIndex { counter: sym::usize() }),
        ],
    );
    let goal: Goal<VI> = Goal::new(I, GoalData::CannotProve);
    UCanonical {
        canonical: Canonical { value: InEnvironment::new(&Environment::new(I), goal), binders },
        universes: 1,
    }
}

fn trivial(k0: usize, k1: usize, k2: usize) {
    trivial_core(k0, k1, k2);
    cover!(true);
}

/// every combination of binder kinds with `k0` first (thorough tier)
fn trivial_row(k0: usize) {
    let mut k1 = 0;
    while k1 < 4 {
        let mut k2 = 0;
        while k2 < 4 {
            arena_reset();
            trivial_core(k0, k1, k2);
            k2 += 1;
        }
        k1 += 1;
    }
    cover!(true);
}

fn trivial_core(k0: usize, k1: usize, k2: usize) {
    let q = query(k0, k1, k2);
    let s = q.trivial_substitution(I);
    let ks = [k0, k1, k2];
    assert!(s.len(I) == 3, "C28: one entry per unknown of the query");
    let mut i = 0;
    while i < 3 {
        let expect = BoundVar::new(DebruijnIndex::INNERMOST, i);
        let ok = match (s.at(I, i).data(I), ks[i]) {
            (GenericArgData::Ty(t), 0) | (GenericArgData::Ty(t), 1) => {
                matches!(t.kind(I), TyKind::BoundVar(b) if *b == expect)
            }
            (GenericArgData::Lifetime(l), 2) => {
                matches!(l.data(I), LifetimeData::BoundVar(b) if *b == expect)
            }
            (GenericArgData::Const(c), 3) => {
                matches!(&c.data(I).value, ConstValue::BoundVar(b) if *b == expect)
            }
            _ => false,
        };
        assert!(ok, "C28: entry of the wrong kind or not referring to its own unknown");
        i += 1;
    }
    assert!(s.is_identity_subst(I));
    let ans = Canonical {
        value: AnswerSubst { subst: s, constraints: Constraints::empty(I), delayed_subgoals: vec![] },
        binders: q.canonical.binders,
    };
    assert!(q.is_trivial_substitution(I, &ans));
    std::mem::forget(ans);
}

/// is_identity_subst on three entries of fixed sorts with symbolic variables: exactness
fn identity_exact(k0: usize, k1: usize, k2: usize) {
    let mk = |k: usize| -> (GenericArg<VI>, BoundVar) {
        let bv = sym_bound_var();
        let g = match k {
            0 | 1 => ga_ty(ty(TyKind::BoundVar(bv))),
            2 => ga_lt(lt(LifetimeData::BoundVar(bv))),
            _ => ga_const(
                ConstData { ty: ty(TyKind::Scalar(Scalar::Uint(UintTy::Usize))), value: ConstValue::BoundVar(bv) }
                    .intern(I),
            ),
        };
        (g, bv)
    };
    let (g0, b0) = mk(k0);
    let (g1, b1) = mk(k1);
    let (g2, b2) = mk(k2);
    let s = subst(&[g0, g1, g2]);
    let want = b0 == BoundVar::new(DebruijnIndex::INNERMOST, 0)
        && b1 == BoundVar::new(DebruijnIndex::INNERMOST, 1)
        && b2 == BoundVar::new(DebruijnIndex::INNERMOST, 2);
    assert!(s.is_identity_subst(I) == want, "C28: is_identity_subst disagrees with its definition");
    cover!(want);
    cover!(!want);
}

vharness!(c28_q_trivial_ty_lt_const, 8, { trivial(0, 2, 3) });
vharness!(c28_q_trivial_const_int_ty, 8, { trivial(3, 1, 0) });
vharness!(c28_t_trivial_lt_lt_ty, 8, { trivial(2, 2, 0) });
vharness!(c28_t_trivial_ty_ty_ty, 8, { trivial(0, 0, 1) });
vharness!(c28_t_trivial_row_ty, 8, { trivial_row(0) });
vharness!(c28_t_trivial_row_int, 8, { trivial_row(1) });
vharness!(c28_t_trivial_row_lifetime, 8, { trivial_row(2) });
vharness!(c28_t_trivial_row_const, 8, { trivial_row(3) });
vharness!(c28_q_identity_ty_lt_const, 8, { identity_exact(0, 2, 3) });
vharness!(c28_t_identity_const_ty_lt, 8, { identity_exact(3, 0, 2) });
// a ground entry is never the identity
vharness!(c28_q_identity_ground, 8, {
    let s = subst(&[ga_ty(ty(TyKind::BoundVar(BoundVar::new(DebruijnIndex::INNERMOST, 0)))), ga_ty(mk_leaf(0))]);
    assert!(!s.is_identity_subst(I));
    cover!(true);
});
