//! C26 — type flags summarise a type's contents exactly.
//!
//! Step harnesses: one constructor application over *opaque children whose flag words are
//! arbitrary symbolic 16-bit values* (the induction hypothesis with nothing assumed about it),
//! lifetimes of every kind, constants of every kind. Oracle: occurrence semantics — the flags of
//! `K(children)` are exactly `own(K) ∪ ⋃ flags(children)` on the occurrence bits, with `own`,
//! the lifetime table and the constant table taken from the property statement / the flag docs.
//! `STILL_FURTHER_SPECIALIZABLE` is not asserted (excluded by the property).

use chalk_ir::*;
use vinterner::gen::*;
use vinterner::*;

/// The occurrence flags the property covers: everything except STILL_FURTHER_SPECIALIZABLE.
fn occ(f: TypeFlags) -> u16 {
    f.bits() & !TypeFlags::STILL_FURTHER_SPECIALIZABLE.bits()
}

/// An opaque child: a `Foreign` leaf carrying an arbitrary flag word.
fn opaque_child() -> Ty<VI> {
    let f = TypeFlags::from_bits_retain(sym::u16());
    I.intern_ty_with_flags(TyKind::Foreign(ForeignDefId(did(sym::u64()))), f)
}

/// What a lifetime contributes (docs of the flags: free regions, local free regions,
/// late-bound, erased, error, inference variable, placeholder).
fn lifetime_flags(l: &Lifetime<VI>) -> TypeFlags {
    match l.data(I) {
        LifetimeData::InferenceVar(_) => {
            TypeFlags::HAS_RE_INFER | TypeFlags::HAS_FREE_LOCAL_REGIONS | TypeFlags::HAS_FREE_REGIONS
        }
        LifetimeData::Placeholder(_) => {
            TypeFlags::HAS_RE_PLACEHOLDER
                | TypeFlags::HAS_FREE_LOCAL_REGIONS
                | TypeFlags::HAS_FREE_REGIONS
        }
        LifetimeData::Static => TypeFlags::HAS_FREE_REGIONS,
        LifetimeData::BoundVar(_) => TypeFlags::HAS_RE_LATE_BOUND,
        LifetimeData::Erased => TypeFlags::HAS_RE_ERASED,
        LifetimeData::Error => TypeFlags::HAS_RE_ERROR,
        LifetimeData::Phantom(..) => TypeFlags::empty(),
    }
}

/// What a constant contributes: its type's flags plus unknown / placeholder for its value.
fn const_flags(c: &Const<VI>) -> TypeFlags {
    let d = c.data(I);
    let v = match d.value {
        ConstValue::InferenceVar(_) => TypeFlags::HAS_CT_INFER,
        ConstValue::Placeholder(_) => TypeFlags::HAS_CT_PLACEHOLDER,
        ConstValue::BoundVar(_) | ConstValue::Concrete(_) => TypeFlags::empty(),
    };
    d.ty.data(I).flags | v
}

fn sym_kids() -> Kids {
    let c0 = opaque_child();
    let c1 = opaque_child();
    let kt = opaque_child();
    Kids {
        c0,
        c1,
        l: sym_lifetime(),
        k: sym_const(kt),
        with_lifetime_arg: true,
        with_const_arg: true,
    }
}

fn args_flags(k: &Kids) -> TypeFlags {
    k.c0.data(I).flags | lifetime_flags(&k.l) | const_flags(&k.k) | k.c1.data(I).flags
}

/// Expected flags of `mk_top(k, kids)` by occurrence semantics.
fn expected(k: usize, kids: &Kids, t: &Ty<VI>) -> TypeFlags {
    match k {
        // list-carrying constructors: exactly what occurs in the arguments
        0 | 1 | 3 | 8 | 9 | 12 | 13 | 14 | 20 => args_flags(kids),
        2 | 10 | 11 | 15 | 21 => TypeFlags::empty(), // Scalar Str Never Foreign BoundVar
        4 => kids.c0.data(I).flags | const_flags(&kids.k), // Array
        5 | 6 => kids.c0.data(I).flags,                    // Slice Raw
        7 => lifetime_flags(&kids.l) | kids.c0.data(I).flags, // Ref
        16 => TypeFlags::HAS_ERROR,
        17 => TypeFlags::HAS_TY_PLACEHOLDER,
        18 => lifetime_flags(&kids.l) | kids.c0.data(I).flags, // Dyn: Self is a bound variable
        19 => {
            let own = match t.kind(I) {
                TyKind::Alias(AliasTy::Projection(_)) => TypeFlags::HAS_TY_PROJECTION,
                _ => TypeFlags::HAS_TY_OPAQUE,
            };
            own | args_flags(kids)
        }
        22 => TypeFlags::HAS_TY_INFER,
        _ => unreachable!(),
    }
}

fn step(k: usize) {
    let kids = sym_kids();
    let t = mk_top(k, &kids);
    let got = t.data(I).flags;
    let want = expected(k, &kids, &t);
    assert!(occ(got) == occ(want), "C26: flags differ from the occurrence semantics");
    // the stored flags are what compute_flags returns
    assert!(t.kind(I).compute_flags(I) == got);
    // witness: the assertion is reached, and (for constructors with children) with a child's
    // flag - here the error bit - showing up in the parent
    let no_children = matches!(k, 2 | 10 | 11 | 15 | 16 | 17 | 21 | 22);
    cover!(no_children || got.contains(TypeFlags::HAS_ERROR));
}

/// Trait-object with one bound of where-clause kind `w` (0 Implemented, 1 AliasEq, 2
/// LifetimeOutlives, 3 TypeOutlives): `dyn (bound) + 'm`.
fn dyn_bound(w: usize) {
    let kids = sym_kids();
    let m = sym_lifetime();
    let self_ty = ty(TyKind::BoundVar(BoundVar::new(DebruijnIndex::INNERMOST, 0)));
    let (wc, want) = match w {
        0 => {
            let tr = TraitRef {
                trait_id: TraitId(did(sym::u64())),
                substitution: subst(&[ga_ty(self_ty), ga_ty(kids.c0), ga_const(kids.k)]),
            };
            (
                WhereClause::Implemented(tr),
                kids.c0.data(I).flags | const_flags(&kids.k),
            )
        }
        1 => {
            let proj = sym::bool();
            let alias_args = subst(&[ga_ty(self_ty), ga_ty(kids.c0)]);
            let alias = if proj {
                AliasTy::Projection(ProjectionTy {
                    associated_ty_id: AssocTypeId(did(sym::u64())),
                    substitution: alias_args,
                })
            } else {
                AliasTy::Opaque(OpaqueTy {
                    opaque_ty_id: OpaqueTyId(did(sym::u64())),
                    substitution: alias_args,
                })
            };
            let own = if proj { TypeFlags::HAS_TY_PROJECTION } else { TypeFlags::HAS_TY_OPAQUE };
            (
                WhereClause::AliasEq(AliasEq { alias, ty: kids.c1 }),
                own | kids.c0.data(I).flags | kids.c1.data(I).flags,
            )
        }
        2 => {
            let l2 = sym_lifetime();
            (
                WhereClause::LifetimeOutlives(LifetimeOutlives { a: kids.l, b: l2 }),
                lifetime_flags(&kids.l) | lifetime_flags(&l2),
            )
        }
        _ => (
            WhereClause::TypeOutlives(TypeOutlives { ty: kids.c1, lifetime: kids.l }),
            kids.c1.data(I).flags | lifetime_flags(&kids.l),
        ),
    };
    let b: QuantifiedWhereClause<VI> = Binders::empty(I, wc);
    let bounds = Binders::new(
        VariableKinds::from1(I, VariableKind::Ty(TyVariableKind::General)),
        QuantifiedWhereClauses::from1(I, b),
    );
    let t = ty(TyKind::Dyn(DynTy { bounds, lifetime: m }));
    let want = want | lifetime_flags(&m);
    assert!(occ(t.data(I).flags) == occ(want), "C26: dyn flags differ from the occurrence semantics");
    cover!(t.data(I).flags.contains(TypeFlags::HAS_RE_ERASED));
}

macro_rules! per_ctor {
    ($($name:ident, $k:expr;)*) => {$(
        vharness!($name, 8, { step($k) });
    )*};
}

per_ctor! {
    c26_q_adt, 0;
    c26_t_assoc, 1;
    c26_q_scalar, 2;
    c26_q_tuple, 3;
    c26_q_array, 4;
    c26_t_slice, 5;
    c26_t_raw, 6;
    c26_q_ref, 7;
    c26_t_opaque, 8;
    c26_t_fndef, 9;
    c26_t_str, 10;
    c26_t_never, 11;
    c26_t_closure, 12;
    c26_t_coroutine, 13;
    c26_t_witness, 14;
    c26_t_foreign, 15;
    c26_q_error, 16;
    c26_q_placeholder, 17;
    c26_q_dyn, 18;
    c26_q_alias, 19;
    c26_q_function, 20;
    c26_t_boundvar, 21;
    c26_q_infer, 22;
}
vharness!(c26_q_dyn_implemented, 8, { dyn_bound(0) });
// `dyn_bound(1)` (an AliasEq bound) is withdrawn: WhereClause::AliasEq is the widest where-clause variant
// and CBMC cannot read it back (DESIGN.md §2.2a, B12): 693 s, then a trace that does not reproduce natively.
vharness!(c26_q_dyn_lifetime_outlives, 8, { dyn_bound(2) });
vharness!(c26_q_dyn_type_outlives, 8, { dyn_bound(3) });
