//! C18 — the clause pre-filter (`could_match`) never rejects a unifiable pair.
//!
//! Step harnesses: one constructor application per side over *symbolic leaves* (arbitrary leaf
//! kind and payload). Oracle: `unif_top`, the one-step unifiability rule the real unifier applies
//! (`Unifier::relate_ty_ty`); it is validated natively against `InferenceTable::relate` by
//! `/verif/harness/oracle` during setup. Assertion: `unif_top(a, b) ⇒ a.could_match(b)`.

use chalk_ir::could_match::CouldMatch;
use chalk_ir::*;
use vinterner::gen::*;
use vinterner::*;

/// "Flexible" kinds unify with anything as far as a table-free pre-filter can know: clause
/// variables, general inference variables (universe restrictions are invisible without the
/// table), aliases (unification defers to an `AliasEq` goal) and error types.
pub fn flexible(k: &TyKind<VI>) -> bool {
    matches!(
        k,
        TyKind::BoundVar(_)
            | TyKind::Alias(_)
            | TyKind::Error
            | TyKind::InferenceVar(_, TyVariableKind::General)
    )
}

fn is_int_scalar(k: &TyKind<VI>) -> bool {
    matches!(k, TyKind::Scalar(Scalar::Int(_)) | TyKind::Scalar(Scalar::Uint(_)))
}
fn is_float_scalar(k: &TyKind<VI>) -> bool {
    matches!(k, TyKind::Scalar(Scalar::Float(_)))
}

/// Unifiability of two *leaf* kinds (exact for the leaf kinds of `sym_leaf`).
pub fn unif_leaf(a: &TyKind<VI>, b: &TyKind<VI>) -> bool {
    if flexible(a) || flexible(b) {
        return true;
    }
    match (a, b) {
        (TyKind::InferenceVar(_, k1), TyKind::InferenceVar(_, k2)) => k1 == k2,
        (TyKind::InferenceVar(_, TyVariableKind::Integer), o)
        | (o, TyKind::InferenceVar(_, TyVariableKind::Integer)) => is_int_scalar(o),
        (TyKind::InferenceVar(_, TyVariableKind::Float), o)
        | (o, TyKind::InferenceVar(_, TyVariableKind::Float)) => is_float_scalar(o),
        (TyKind::Foreign(x), TyKind::Foreign(y)) => x == y,
        (TyKind::Scalar(x), TyKind::Scalar(y)) => x == y,
        (TyKind::Placeholder(x), TyKind::Placeholder(y)) => x == y,
        (TyKind::Str, TyKind::Str) => true,
        (TyKind::Never, TyKind::Never) => true,
        _ => false,
    }
}

fn unif_const(a: &Const<VI>, b: &Const<VI>) -> bool {
    let (da, db) = (a.data(I), b.data(I));
    if !unif_leaf(da.ty.kind(I), db.ty.kind(I)) {
        return false;
    }
    match (&da.value, &db.value) {
        (ConstValue::Concrete(x), ConstValue::Concrete(y)) => x.interned == y.interned,
        (ConstValue::Placeholder(x), ConstValue::Placeholder(y)) => x == y,
        (ConstValue::Concrete(_), ConstValue::Placeholder(_))
        | (ConstValue::Placeholder(_), ConstValue::Concrete(_)) => false,
        _ => true, // a variable on either side
    }
}

/// children are leaves; lifetimes always relate (possibly with outlives obligations)
fn unif_args(a: &Substitution<VI>, b: &Substitution<VI>) -> bool {
    let (sa, sb) = (a.as_slice(I), b.as_slice(I));
    if sa.len() != sb.len() {
        // ill-formed pair (same constructor id, different arity): no claim either way
        return false;
    }
    let mut i = 0;
    while i < sa.len() {
        let ok = match (sa[i].data(I), sb[i].data(I)) {
            (GenericArgData::Ty(x), GenericArgData::Ty(y)) => unif_leaf(x.kind(I), y.kind(I)),
            (GenericArgData::Lifetime(_), GenericArgData::Lifetime(_)) => true,
            (GenericArgData::Const(x), GenericArgData::Const(y)) => unif_const(x, y),
            _ => false,
        };
        if !ok {
            return false;
        }
        i += 1;
    }
    true
}

/// One-step unifiability of two types whose children are leaves.
pub fn unif_top(a: &Ty<VI>, b: &Ty<VI>) -> bool {
    let (ka, kb) = (a.kind(I), b.kind(I));
    if flexible(ka) || flexible(kb) {
        return true;
    }
    match (ka, kb) {
        (TyKind::Adt(i, sa), TyKind::Adt(j, sb)) => i == j && unif_args(sa, sb),
        (TyKind::AssociatedType(i, sa), TyKind::AssociatedType(j, sb)) => {
            i == j && unif_args(sa, sb)
        }
        (TyKind::Tuple(i, sa), TyKind::Tuple(j, sb)) => i == j && unif_args(sa, sb),
        (TyKind::OpaqueType(i, sa), TyKind::OpaqueType(j, sb)) => i == j && unif_args(sa, sb),
        (TyKind::FnDef(i, sa), TyKind::FnDef(j, sb)) => i == j && unif_args(sa, sb),
        (TyKind::Closure(i, sa), TyKind::Closure(j, sb)) => i == j && unif_args(sa, sb),
        (TyKind::Coroutine(i, sa), TyKind::Coroutine(j, sb)) => i == j && unif_args(sa, sb),
        (TyKind::CoroutineWitness(i, sa), TyKind::CoroutineWitness(j, sb)) => {
            i == j && unif_args(sa, sb)
        }
        (TyKind::Array(ta, ca), TyKind::Array(tb, cb)) => {
            unif_leaf(ta.kind(I), tb.kind(I)) && unif_const(ca, cb)
        }
        (TyKind::Slice(ta), TyKind::Slice(tb)) => unif_leaf(ta.kind(I), tb.kind(I)),
        (TyKind::Raw(ma, ta), TyKind::Raw(mb, tb)) => {
            ma == mb && unif_leaf(ta.kind(I), tb.kind(I))
        }
        (TyKind::Ref(ma, _, ta), TyKind::Ref(mb, _, tb)) => {
            ma == mb && unif_leaf(ta.kind(I), tb.kind(I))
        }
        (TyKind::Function(fa), TyKind::Function(fb)) => {
            fa.sig == fb.sig
                && fa.num_binders == fb.num_binders
                && unif_args(&fa.substitution.0, &fb.substitution.0)
        }
        (TyKind::Dyn(da), TyKind::Dyn(db)) => {
            // shapes built by `mk_top`: one `Implemented` bound each
            let (qa, qb) = (
                da.bounds.skip_binders().as_slice(I),
                db.bounds.skip_binders().as_slice(I),
            );
            match (qa[0].skip_binders(), qb[0].skip_binders()) {
                (WhereClause::Implemented(x), WhereClause::Implemented(y)) => {
                    x.trait_id == y.trait_id
                        && unif_leaf(
                            x.substitution.at(I, 1).assert_ty_ref(I).kind(I),
                            y.substitution.at(I, 1).assert_ty_ref(I).kind(I),
                        )
                }
                _ => false,
            }
        }
        // leaves as tops
        _ => unif_leaf(ka, kb),
    }
}

/// Children of concrete leaf kinds (`LEAVES[l0]`, `LEAVES[l1]`) with symbolic payloads; the
/// const's type is a `Foreign` leaf.
fn kids(l0: usize, l1: usize) -> Kids {
    let c0 = mk_leaf(l0);
    let c1 = mk_leaf(l1);
    let kt = mk_leaf(0);
    Kids {
        c0,
        c1,
        l: sym_lifetime(),
        k: sym_const(kt),
        with_lifetime_arg: true,
        with_const_arg: false,
    }
}

/// Returns (could_match, unifiable).
fn check_pair(a: &Ty<VI>, b: &Ty<VI>) -> (bool, bool) {
    let cm = a.could_match(I, &InvariantDb, b);
    let un = unif_top(a, b);
    assert!(!un || cm, "C18: could_match rejected a unifiable pair");
    // the filter is used in both directions (goal vs clause, clause vs goal)
    let cm2 = b.could_match(I, &InvariantDb, a);
    assert!(!un || cm2, "C18: could_match rejected a unifiable pair (swapped)");
    (cm, un)
}

/// Same top constructor `TOPS[k]` on both sides, children of the given leaf kinds.
fn same_ctor(k: usize, la: (usize, usize), lb: (usize, usize)) {
    let ka = kids(la.0, la.1);
    let kb = kids(lb.0, lb.1);
    let a = mk_top(k, &ka);
    let b = mk_top(k, &kb);
    let (cm, un) = check_pair(&a, &b);
    // witnesses: the assertion is reached with a unifiable pair the filter accepts
    cover!(cm && un);
}

/// Top constructor `TOPS[k]` against every *other* constructor, one concrete pair at a time.
fn mixed_ctor(k: usize) {
    let mut j = 0;
    while j < TOPS.len() {
        if j != k {
            arena_reset();
            let ka = kids(0, 0);
            let kb = kids(0, 0);
            let a = mk_top(k, &ka);
            let b = mk_top(j, &kb);
            let cm = a.could_match(I, &InvariantDb, &b);
            let un = unif_top(&a, &b);
            assert!(!un || cm, "C18: could_match rejected a unifiable pair");
            let cm2 = b.could_match(I, &InvariantDb, &a);
            assert!(!un || cm2, "C18: could_match rejected a unifiable pair (swapped)");
            cover!(cm && cm2);
        }
        j += 1;
    }
}

/// Leaf kind `la` against every leaf kind, as whole types and as the children of a slice.
fn leaf_pairs(la: usize) {
    let mut lb = 0;
    while lb < N_LEAF_KINDS {
        arena_reset();
        let a = mk_leaf(la);
        let b = mk_leaf(lb);
        let (cm, un) = check_pair(&a, &b);
        let sa = ty(TyKind::Slice(a));
        let sb = ty(TyKind::Slice(b));
        let (cm2, un2) = check_pair(&sa, &sb);
        cover!(cm && un && cm2 && un2);
        lb += 1;
    }
}

macro_rules! per_ctor {
    ($($same:ident, $mixed:ident, $k:expr;)*) => {$(
        vharness!($same, 8, { same_ctor($k, (0, 0), (0, 0)) });
        vharness!($mixed, 25, { mixed_ctor($k) });
    )*};
}

per_ctor! {
    c18_q_same_adt, c18_t_mixed_adt, 0;
    c18_t_same_assoc, c18_t_mixed_assoc, 1;
    c18_q_same_scalar, c18_t_mixed_scalar, 2;
    c18_q_same_tuple, c18_t_mixed_tuple, 3;
    c18_q_same_array, c18_t_mixed_array, 4;
    c18_t_same_slice, c18_t_mixed_slice, 5;
    c18_t_same_raw, c18_t_mixed_raw, 6;
    c18_q_same_ref, c18_q_mixed_ref, 7;
    c18_t_same_opaque, c18_t_mixed_opaque, 8;
    c18_q_same_fndef, c18_t_mixed_fndef, 9;
    c18_t_same_str, c18_t_mixed_str, 10;
    c18_t_same_never, c18_t_mixed_never, 11;
    c18_t_same_closure, c18_t_mixed_closure, 12;
    c18_t_same_coroutine, c18_t_mixed_coroutine, 13;
    c18_t_same_witness, c18_t_mixed_witness, 14;
    c18_t_same_foreign, c18_t_mixed_foreign, 15;
    c18_t_same_error, c18_t_mixed_error, 16;
    c18_q_same_placeholder, c18_t_mixed_placeholder, 17;
    c18_q_same_dyn, c18_t_mixed_dyn, 18;
    c18_t_same_alias, c18_t_mixed_alias, 19;
    c18_q_same_function, c18_t_mixed_function, 20;
    c18_t_same_boundvar, c18_t_mixed_boundvar, 21;
    c18_q_same_infer, c18_q_mixed_infer, 22;
}

macro_rules! per_leaf {
    ($($name:ident, $l:expr;)*) => {$(
        vharness!($name, 11, { leaf_pairs($l) });
    )*};
}

per_leaf! {
    c18_q_leaf_foreign, 0;
    c18_q_leaf_scalar, 1;
    c18_q_leaf_placeholder, 2;
    c18_q_leaf_infer, 3;
    c18_q_leaf_boundvar, 4;
    c18_q_leaf_error, 5;
    c18_q_leaf_str, 6;
    c18_q_leaf_never, 7;
    c18_q_leaf_alias, 8;
}

// the filter does reject something (so the oracle / filter pair is not trivially "true"):
vharness!(c18_q_rejects, 8, {
    let ka = kids(0, 0);
    let kb = kids(0, 0);
    let a = mk_top(3, &ka);
    let b = mk_top(3, &kb);
    let (cm, un) = check_pair(&a, &b);
    cover!(!cm && !un);
    cover!(cm && un);
});

/// Systematic rows (thorough tier): constructor `k` on both sides, first child of leaf kind `la0`
/// against EVERY leaf kind on the other side (second child a ground leaf).
fn ctor_leaf_row(k: usize, la0: usize) {
    let mut lb0 = 0;
    while lb0 < N_LEAF_KINDS {
        arena_reset();
        let ka = kids(la0, 0);
        let kb = kids(lb0, 0);
        let a = mk_top(k, &ka);
        let b = mk_top(k, &kb);
        let _ = check_pair(&a, &b);
        lb0 += 1;
    }
    cover!(true);
}
macro_rules! rows {
    ($($name:ident: $k:expr, $l:expr;)*) => {$(
        vharness!($name, 11, { ctor_leaf_row($k, $l) });
    )*};
}
include!("c18_rows.rs");

// ------------------------------------------------------------------------------------------------
// Goal level: `ProgramClause::could_match(&DomainGoal)` - what `build_table` / `solve_from_clauses`
// call. The clause is `forall<X> { head :- }` with leaf arguments (X = ^0.0 among them); a goal is
// unifiable with the head when it is the same kind of domain goal for the same trait and the
// arguments unify pairwise.
fn domain_goal(v: usize, trait_id: u64, k: &Kids) -> DomainGoal<VI> {
    let tr = TraitRef { trait_id: TraitId(did(trait_id)), substitution: subst(&[ga_ty(k.c0), ga_lt(k.l), ga_ty(k.c1)]) };
    match v {
        0 => DomainGoal::WellFormed(WellFormed::Trait(tr)),
        1 => DomainGoal::FromEnv(FromEnv::Trait(tr)),
        2 => DomainGoal::LocalImplAllowed(tr),
        3 => DomainGoal::IsLocal(k.c0),
        4 => DomainGoal::WellFormed(WellFormed::Ty(k.c0)),
        _ => DomainGoal::Holds(WhereClause::Implemented(tr)),
    }
}
fn unif_goal(va: usize, ta: u64, ka: &Kids, vb: usize, tb: u64, kb: &Kids) -> bool {
    if va != vb {
        return false;
    }
    match va {
        3 | 4 => unif_leaf(ka.c0.kind(I), kb.c0.kind(I)),
        _ => ta == tb && unif_leaf(ka.c0.kind(I), kb.c0.kind(I)) && unif_leaf(ka.c1.kind(I), kb.c1.kind(I)),
    }
}
fn goal_step(va: usize, vb: usize, la: (usize, usize), lb: (usize, usize)) {
    let ta = sym::u64();
    let tb = sym::u64();
    let ka = kids(la.0, la.1);
    let kb = kids(lb.0, lb.1);
    let head = domain_goal(va, ta, &ka);
    let goal = domain_goal(vb, tb, &kb);
    let imp = ProgramClauseImplication {
        consequence: head,
        conditions: Goals::empty(I),
        constraints: Constraints::empty(I),
        priority: ClausePriority::High,
    };
    let clause = ProgramClause::new(
        I,
        ProgramClauseData(Binders::new(VariableKinds::from1(I, VariableKind::Ty(TyVariableKind::General)), imp)),
    );
    let cm = clause.could_match(I, &InvariantDb, &goal);
    let un = unif_goal(va, ta, &ka, vb, tb, &kb);
    assert!(!un || cm, "C18: could_match rejected a clause whose head unifies with the goal");
    cover!(va != vb || (cm && un));
}
vharness!(c18_q_goal_wellformed_trait, 8, { goal_step(0, 0, (4, 0), (0, 0)) });
vharness!(c18_q_goal_fromenv_trait, 8, { goal_step(1, 1, (4, 4), (3, 0)) });
vharness!(c18_t_goal_local_impl_allowed, 8, { goal_step(2, 2, (0, 4), (0, 1)) });
vharness!(c18_q_goal_is_local, 8, { goal_step(3, 3, (4, 0), (2, 0)) });
vharness!(c18_t_goal_mismatched_kinds, 8, { goal_step(0, 1, (4, 0), (0, 0)) });
// Withdrawn (do not finish within 2400 s): `goal_step(5, 5, ..)` - heads of the form `T: Trait`, i.e.
// `DomainGoal::Holds(WhereClause::Implemented(..))`, which CBMC cannot read back (DESIGN.md §2.2a) - and
// `goal_step(4, 4, ..)` (`WellFormed(T)`).

// Argument lists as such (the call shape of `Program::impls_for_trait`: impl header arguments
// against trait-reference arguments): `[ty, lifetime, const]` with leaf kinds per class.
fn arg_lists(la: usize, lb: usize) {
    let ka = kids(la, 0);
    let kb = kids(lb, 0);
    let a = subst(&[ga_ty(ka.c0), ga_lt(ka.l), ga_const(ka.k)]);
    let b = subst(&[ga_ty(kb.c0), ga_lt(kb.l), ga_const(kb.k)]);
    let cm = a.as_slice(I).could_match(I, &InvariantDb, b.as_slice(I));
    let un = unif_args(&a, &b);
    assert!(!un || cm, "C18: could_match rejected unifiable argument lists");
    cover!(cm && un);
}
vharness!(c18_q_arglist_ground, 8, { arg_lists(0, 0) });
vharness!(c18_q_arglist_var_vs_ground, 8, { arg_lists(3, 0) });
vharness!(c18_t_arglist_scalar_vs_boundvar, 8, { arg_lists(1, 4) });

// children of mixed leaf kinds under the list-carrying constructors
vharness!(c18_q_same_adt_var_vs_ground, 8, { same_ctor(0, (3, 0), (0, 4)) });
vharness!(c18_q_same_dyn_var_vs_ground, 8, { same_ctor(18, (3, 0), (0, 0)) });
vharness!(c18_t_same_dyn_ground_vs_boundvar, 8, { same_ctor(18, (0, 0), (4, 0)) });
vharness!(c18_t_same_function_var_vs_ground, 8, { same_ctor(20, (3, 0), (0, 4)) });
vharness!(c18_t_same_slice_alias_vs_ground, 8, { same_ctor(5, (8, 0), (1, 0)) });
vharness!(c18_t_same_ref_var_vs_placeholder, 8, { same_ctor(7, (3, 0), (2, 0)) });
vharness!(c18_t_same_tuple_var_vs_ground, 8, { same_ctor(3, (3, 1), (1, 4)) });
vharness!(c18_t_same_adt_ph_and_scalar, 8, { same_ctor(0, (2, 1), (2, 1)) });
vharness!(c18_t_same_fndef_alias_vs_ground, 8, { same_ctor(9, (8, 0), (0, 5)) });
