//! C25 — binder operations obey the substitution laws.
//!
//! Class-partitioned harnesses (DESIGN.md §4.6): a *class* fixes the constructor skeleton of the
//! term, the de Bruijn depth of its type / lifetime / const variable leaves and the shift amount;
//! inside a class every index within a binder, id, mutability, scalar and placeholder payload
//! is symbolic at full machine width. The driver runs every class of the bound.
//!
//! Laws (for every term t of the class):
//!   shift   t.shifted_in_from(k).shifted_out_to(k) == Ok(t);
//!           t.shifted_out_to(k) fails exactly when t has a free variable bound within the k
//!           innermost binders, and otherwise shifting back in gives t;
//!   ident   Binders(kinds, t).substitute(identity) == t          (t closed under the binder)
//!           ... == t shifted out by one                           (t mentioning outer binders)
//!   comm    Binders(kinds, t).substitute(σ).shifted_in()
//!             == Binders(kinds, t.shifted_in_from_under_binder).substitute(σ.shifted_in())
//!   noop    t.fold_with(folder with only default methods) == t

use chalk_ir::fold::shift::Shift;
use chalk_ir::fold::{FallibleTypeFolder, Subst, TypeFoldable};
use chalk_ir::interner::HasInterner;
use chalk_ir::*;
use vinterner::gen::*;
use vinterner::*;

/// Depths of the three variable leaves (relative to the root of the term) and their indices.
#[derive(Copy, Clone)]
pub struct Vars {
    pub d_ty: u32,
    pub d_lt: u32,
    pub d_ct: u32,
    pub i_ty: usize,
    pub i_ty2: usize,
    pub i_lt: usize,
    pub i_ct: usize,
}

impl Vars {
    /// indices symbolic (full usize)
    pub fn sym(d_ty: u32, d_lt: u32, d_ct: u32) -> Vars {
        Vars {
            d_ty,
            d_lt,
            d_ct,
            i_ty: sym::usize(),
            i_ty2: sym::usize(),
            i_lt: sym::usize(),
            i_ct: sym::usize(),
        }
    }
    /// the variables of one binder `[Ty, Ty, Lifetime, Const]`, at the given depths
    pub fn of_binder(d_ty: u32, d_lt: u32, d_ct: u32) -> Vars {
        Vars { d_ty, d_lt, d_ct, i_ty: 0, i_ty2: 1, i_lt: 2, i_ct: 3 }
    }
    fn ty(&self, up: u32) -> Ty<VI> {
        ty(TyKind::BoundVar(BoundVar::new(DebruijnIndex::new(self.d_ty + up), self.i_ty)))
    }
    fn ty2(&self, up: u32) -> Ty<VI> {
        ty(TyKind::BoundVar(BoundVar::new(DebruijnIndex::new(self.d_ty + up), self.i_ty2)))
    }
    fn lt(&self, up: u32) -> Lifetime<VI> {
        lt(LifetimeData::BoundVar(BoundVar::new(DebruijnIndex::new(self.d_lt + up), self.i_lt)))
    }
    fn ct(&self, up: u32) -> Const<VI> {
        // const types are closed (chalk's shifters rely on it)
        ConstData {
            ty: ty(TyKind::Scalar(Scalar::Uint(UintTy::Usize))),
            value: ConstValue::BoundVar(BoundVar::new(DebruijnIndex::new(self.d_ct + up), self.i_ct)),
        }
        .intern(I)
    }
}

pub const N_TY_SKEL: usize = 8;
pub const TY_SKELS: [&str; N_TY_SKEL] = [
    "&m 'L [V]",
    "Adt<V, 'L, C>",
    "(V, *mut V2)",
    "for<'a> unsafe extern C fn(&'a mut V) -> &'L bool",
    "dyn Tr<V> + 'L",
    "<V as Tr>::A<'L>",
    "[V; C]",
    "for<'a> fn() -> [&'a u8; C]",
];

/// (uses ty var, uses lifetime var, uses const var)
pub fn ty_skel_uses(s: usize) -> (bool, bool, bool) {
    match s {
        0 => (true, true, false),
        1 => (true, true, true),
        2 => (true, false, false),
        3 => (true, true, false),
        4 => (true, true, false),
        5 => (true, true, false),
        6 => (true, false, true),
        _ => (false, false, true),
    }
}

pub fn mk_ty(s: usize, v: &Vars) -> Ty<VI> {
    let id = sym::u64();
    match s {
        0 => ty(TyKind::Ref(Mutability::Mut, v.lt(0), ty(TyKind::Slice(v.ty(0))))),
        1 => ty(TyKind::Adt(
            adt_id(id),
            subst(&[ga_ty(v.ty(0)), ga_lt(v.lt(0)), ga_const(v.ct(0))]),
        )),
        2 => {
            // (V, *mut V2)
            let s = subst(&[ga_ty(v.ty(0)), ga_ty(ty(TyKind::Raw(Mutability::Mut, v.ty2(0))))]);
            ty(TyKind::Tuple(2, s))
        }
        3 => {
            // one binder: 'a = ^0.0; the class variables are one level further out
            // for<'a> unsafe extern "C" fn(&'a mut V) -> &'L bool
            let a = lt(LifetimeData::BoundVar(BoundVar::new(DebruijnIndex::INNERMOST, 0)));
            let arg = ty(TyKind::Ref(Mutability::Mut, a, v.ty(1)));
            let ret = ty(TyKind::Ref(Mutability::Not, v.lt(1), ty(TyKind::Scalar(Scalar::Bool))));
            ty(TyKind::Function(FnPointer {
                num_binders: 1,
                sig: FnSig { abi: VAbi::C, safety: Safety::Unsafe, variadic: false },
                substitution: FnSubst(subst(&[ga_ty(arg), ga_ty(ret)])),
            }))
        }
        4 => {
            // two binders (bounds, and the where clause's own): Self = ^1.0
            let self_ty = ty(TyKind::BoundVar(BoundVar::new(DebruijnIndex::ONE, 0)));
            let tr = TraitRef {
                trait_id: TraitId(did(id)),
                substitution: subst(&[ga_ty(self_ty), ga_ty(v.ty(2))]),
            };
            let qwc: QuantifiedWhereClause<VI> = Binders::empty(I, WhereClause::Implemented(tr));
            let bounds = Binders::new(
                VariableKinds::from1(I, VariableKind::Ty(TyVariableKind::General)),
                QuantifiedWhereClauses::from1(I, qwc),
            );
            ty(TyKind::Dyn(DynTy { bounds, lifetime: v.lt(0) }))
        }
        5 => ty(TyKind::Alias(AliasTy::Projection(ProjectionTy {
            associated_ty_id: AssocTypeId(did(id)),
            substitution: subst(&[ga_ty(v.ty(0)), ga_lt(v.lt(0))]),
        }))),
        6 => ty(TyKind::Array(v.ty(0), v.ct(0))),
        _ => {
            // a const variable of an outer binder underneath a function-pointer binder
            let a = lt(LifetimeData::BoundVar(BoundVar::new(DebruijnIndex::INNERMOST, 0)));
            let elem = ty(TyKind::Ref(Mutability::Not, a, ty(TyKind::Scalar(Scalar::Uint(UintTy::U8)))));
            let ret = ty(TyKind::Array(elem, v.ct(1)));
            ty(TyKind::Function(FnPointer {
                num_binders: 1,
                sig: FnSig { abi: VAbi::RUST, safety: Safety::Safe, variadic: false },
                substitution: FnSubst(subst(&[ga_ty(ret)])),
            }))
        }
    }
}

pub const N_GOAL_SKEL: usize = 3;
pub fn goal_skel_uses(s: usize) -> (bool, bool, bool) {
    match s {
        0 => (true, false, false),
        1 => (true, true, false),
        _ => (true, true, true),
    }
}
pub fn mk_goal(s: usize, v: &Vars) -> Goal<VI> {
    let id = sym::u64();
    match s {
        0 => {
            // forall<T> { V = T }
            let t0 = ty(TyKind::BoundVar(BoundVar::new(DebruijnIndex::INNERMOST, 0)));
            let eq: Goal<VI> =
                Goal::new(I, GoalData::EqGoal(EqGoal { a: ga_ty(v.ty(1)), b: ga_ty(t0) }));
            Goal::new(
                I,
                GoalData::Quantified(
                    QuantifierKind::ForAll,
                    Binders::new(
                        VariableKinds::from1(I, VariableKind::Ty(TyVariableKind::General)),
                        eq,
                    ),
                ),
            )
        }
        1 => {
            // all(V = F, not(&mut 'L V = F))
            let f = foreign(id);
            let g1: Goal<VI> =
                Goal::new(I, GoalData::EqGoal(EqGoal { a: ga_ty(v.ty(0)), b: ga_ty(f) }));
            let r = ty(TyKind::Ref(Mutability::Mut, v.lt(0), v.ty(0)));
            let g2: Goal<VI> = Goal::new(I, GoalData::EqGoal(EqGoal { a: ga_ty(r), b: ga_ty(f) }));
            let g3: Goal<VI> = Goal::new(I, GoalData::Not(g2));
            Goal::new(I, GoalData::All(Goals::from_iter(I, [g1, g3])))
        }
        _ => {
            // WellFormed(V: Tr<'L, C>)
            let tr = TraitRef {
                trait_id: TraitId(did(id)),
                substitution: subst(&[ga_ty(v.ty(0)), ga_lt(v.lt(0)), ga_const(v.ct(0))]),
            };
            Goal::new(I, GoalData::DomainGoal(DomainGoal::WellFormed(WellFormed::Trait(tr))))
        }
    }
}

/// forall<X> { WellFormed(X: Tr<V>) :- X = V }   (uses the type variable only)
pub fn mk_clause(v: &Vars) -> ProgramClause<VI> {
    let x = ty(TyKind::BoundVar(BoundVar::new(DebruijnIndex::INNERMOST, 0)));
    let tr = TraitRef {
        trait_id: TraitId(did(sym::u64())),
        substitution: subst(&[ga_ty(x), ga_ty(v.ty(1))]),
    };
    let cond: Goal<VI> =
        Goal::new(I, GoalData::EqGoal(EqGoal { a: ga_ty(x), b: ga_ty(v.ty(1)) }));
    let imp = ProgramClauseImplication {
        consequence: DomainGoal::WellFormed(WellFormed::Trait(tr)),
        conditions: Goals::from1(I, cond),
        constraints: Constraints::empty(I),
        priority: ClausePriority::Low,
    };
    ProgramClause::new(
        I,
        ProgramClauseData(Binders::new(
            VariableKinds::from1(I, VariableKind::Ty(TyVariableKind::General)),
            imp,
        )),
    )
}

fn min_free(uses: (bool, bool, bool), v: &Vars) -> u32 {
    let mut m = u32::MAX;
    if uses.0 && v.d_ty < m {
        m = v.d_ty;
    }
    if uses.1 && v.d_lt < m {
        m = v.d_lt;
    }
    if uses.2 && v.d_ct < m {
        m = v.d_ct;
    }
    m
}

// ------------------------------------------------------------------------------------------
// laws
// ------------------------------------------------------------------------------------------

// Each law is split into pieces of at most two dependent folds (DESIGN.md §2.2a: every fold of a
// bound variable passes its de Bruijn index through an `Option<BoundVar>`, whose payload CBMC
// does not constant-propagate; a third dependent fold multiplies the paths).

/// in-and-back: `t.shifted_in_from(k).shifted_out_to(k) == Ok(t)` (and `shifted_in` == by one)
fn law_shift_roundtrip<T>(t: T, k: u32)
where
    T: TypeFoldable<VI> + PartialEq + Copy,
{
    let kk = DebruijnIndex::new(k);
    let up = t.shifted_in_from(I, kk);
    if k == 1 {
        assert!(t.shifted_in(I) == up, "C25: shifted_in differs from shifted_in_from(1)");
    }
    let back = up.shifted_out_to(I, kk);
    assert!(back == Ok(t), "C25: shifting in and back out changed the term");
}

/// `shifted_out_to(k)` fails exactly when a variable is bound within the k innermost binders
fn law_shift_out_fails<T>(t: T, k: u32, min_free_depth: u32)
where
    T: TypeFoldable<VI> + PartialEq + Copy,
{
    let kk = DebruijnIndex::new(k);
    let down = t.shifted_out_to(I, kk);
    assert!(
        down.is_err() == (min_free_depth < k),
        "C25: shifted_out_to fails exactly when a variable is bound within the shifted binders"
    );
    if k == 1 {
        assert!(t.shifted_out(I).is_err() == down.is_err());
    }
}

/// out-and-back (classes whose variables are all free beyond k)
fn law_shift_out_in<T>(t: T, k: u32)
where
    T: TypeFoldable<VI> + PartialEq + Copy,
{
    let kk = DebruijnIndex::new(k);
    match t.shifted_out_to(I, kk) {
        Ok(d) => assert!(d.shifted_in_from(I, kk) == t, "C25: shifting out and back in changed the term"),
        Err(_) => assert!(false, "C25: shifted_out_to failed although every variable is free beyond k"),
    }
}

/// A folder with only the default methods.
struct Noop;
impl FallibleTypeFolder<VI> for Noop {
    type Error = NoSolution;
    fn as_dyn(&mut self) -> &mut dyn FallibleTypeFolder<VI, Error = NoSolution> {
        self
    }
    fn interner(&self) -> VI {
        I
    }
}

fn law_noop<T>(t: T)
where
    T: TypeFoldable<VI> + PartialEq + Copy,
{
    let r = t.try_fold_with(&mut Noop, DebruijnIndex::INNERMOST);
    assert!(r == Ok(t), "C25: folding with a folder that changes nothing changed the term");
}

/// The binder `[Ty, Ty, Lifetime, Const(usize)]` and its identity substitution.
fn binder_kinds() -> VariableKinds<VI> {
    VariableKinds::from_iter(
        I,
        [
            VariableKind::Ty(TyVariableKind::General),
            VariableKind::Ty(TyVariableKind::General),
            VariableKind::Lifetime,
            VariableKind::Const(ty(TyKind::Scalar(Scalar::Uint(UintTy::Usize)))),
        ],
    )
}

fn law_ident<T>(t: T, closed: bool)
where
    T: TypeFoldable<VI> + HasInterner<Interner = VI> + PartialEq + Copy,
{
    let b = Binders::new(binder_kinds(), t);
    let id = b.identity_substitution(I);
    let r = b.substitute(I, &id);
    if closed {
        assert!(r == t, "C25: substituting a binder's own variables is not the identity");
    } else {
        // variables of outer binders move one level in; the binder's own stay: not comparable
        // with a single shift — the identity law is stated for terms closed under the binder
    }
}

/// σ = [Foreign a, &m 'static ^0.j, '^0.l, const ^0.c]: arguments with free variables at depth 0.
fn sigma() -> Substitution<VI> {
    let a = foreign(sym::u64());
    let j = ty(TyKind::BoundVar(BoundVar::new(DebruijnIndex::INNERMOST, sym::usize())));
    let r = ty(TyKind::Ref(Mutability::Mut, lt(LifetimeData::Static), j));
    let l = lt(LifetimeData::BoundVar(BoundVar::new(DebruijnIndex::INNERMOST, sym::usize())));
    let c = ConstData {
        ty: ty(TyKind::Scalar(Scalar::Uint(UintTy::Usize))),
        value: ConstValue::BoundVar(BoundVar::new(DebruijnIndex::INNERMOST, sym::usize())),
    }
    .intern(I);
    subst(&[ga_ty(a), ga_ty(r), ga_lt(l), ga_const(c)])
}

/// Substitution commutes with shifting: for a binder body `t` and arguments σ,
/// `(∀.t)[σ]` shifted in by one == `(∀.t↑)[σ↑]`, where `t↑` shifts the variables of `t` that
/// are free *outside* the binder (Binders::shifted_in does exactly that).
fn law_comm<T>(t: T)
where
    T: TypeFoldable<VI> + HasInterner<Interner = VI> + PartialEq + Copy,
{
    let s = sigma();
    let b = Binders::new(binder_kinds(), t);
    let lhs = b.substitute(I, &s).shifted_in(I);
    let rhs = b.shifted_in(I).substitute(I, &s.shifted_in(I));
    assert!(lhs == rhs, "C25: substitution does not commute with shifting");
    // Subst::apply is what substitute uses
    assert!(Subst::apply(I, s.as_slice(I), t).shifted_in(I) == lhs);
}

// ------------------------------------------------------------------------------------------
// arithmetic on indices, full width
// ------------------------------------------------------------------------------------------

vharness!(c25_q_arith_debruijn, 2, {
    let d = sym::u32();
    let k = sym::u32();
    sym::assume(d <= u32::MAX - k); // no overflow (stated)
    let di = DebruijnIndex::new(d);
    let kk = DebruijnIndex::new(k);
    let up = di.shifted_in_from(kk);
    assert!(up.depth() == d + k);
    assert!(up.shifted_out_to(kk) == Some(di));
    assert!(di.shifted_out_to(kk).is_some() == (d >= k));
    assert!(di.within(kk) == (d < k));
    if d < u32::MAX {
        assert!(di.shifted_in().shifted_out() == Some(di));
    }
    assert!((di.shifted_out() == None) == (d == 0));
    let bv = BoundVar::new(di, sym::usize());
    assert!(bv.shifted_in_from(kk).shifted_out_to(kk) == Some(bv));
    assert!(bv.bound_within(kk) == (d < k));
    assert!(bv.index_if_innermost().is_some() == (d == 0));
    assert!(bv.index_if_bound_at(kk).is_some() == (d == k));
    cover!(d >= k && k > 0);
    cover!(d < k);
});

// ------------------------------------------------------------------------------------------
// class harnesses
// ------------------------------------------------------------------------------------------

pub fn shift_ty(law: u8, s: usize, d_ty: u32, d_lt: u32, d_ct: u32, k: u32) {
    let v = Vars::sym(d_ty, d_lt, d_ct);
    let t = mk_ty(s, &v);
    match law {
        0 => law_shift_roundtrip(t, k),
        1 => law_shift_out_fails(t, k, min_free(ty_skel_uses(s), &v)),
        _ => law_shift_out_in(t, k),
    }
    cover!(true);
}
pub fn shift_goal(law: u8, s: usize, d_ty: u32, d_lt: u32, d_ct: u32, k: u32) {
    let v = Vars::sym(d_ty, d_lt, d_ct);
    let g = mk_goal(s, &v);
    match law {
        0 => law_shift_roundtrip(g, k),
        1 => law_shift_out_fails(g, k, min_free(goal_skel_uses(s), &v)),
        _ => law_shift_out_in(g, k),
    }
    cover!(true);
}
pub fn shift_clause(law: u8, d_ty: u32, k: u32) {
    let v = Vars::sym(d_ty, 0, 0);
    let c = mk_clause(&v);
    match law {
        0 => law_shift_roundtrip(c, k),
        1 => law_shift_out_fails(c, k, d_ty),
        _ => law_shift_out_in(c, k),
    }
    cover!(true);
}
pub fn noop_ty(s: usize, d_ty: u32, d_lt: u32, d_ct: u32) {
    let v = Vars::sym(d_ty, d_lt, d_ct);
    law_noop(mk_ty(s, &v));
    cover!(true);
}
pub fn noop_goal(s: usize, d: u32) {
    let v = Vars::sym(d, d, d);
    law_noop(mk_goal(s, &v));
    cover!(true);
}
pub fn noop_clause(d: u32) {
    let v = Vars::sym(d, 0, 0);
    law_noop(mk_clause(&v));
    cover!(true);
}
pub fn ident_ty(s: usize) {
    let v = Vars::of_binder(0, 0, 0);
    law_ident(mk_ty(s, &v), true);
    cover!(true);
}
pub fn ident_goal(s: usize) {
    let v = Vars::of_binder(0, 0, 0);
    law_ident(mk_goal(s, &v), true);
    cover!(true);
}
pub fn comm_ty(s: usize, d_ty: u32, d_lt: u32, d_ct: u32) {
    // depth 0 = the binder's own variable (fixed index by kind), depth >= 1 = outer variable
    let mut v = Vars::of_binder(d_ty, d_lt, d_ct);
    if d_ty > 0 {
        v.i_ty = sym::usize();
        v.i_ty2 = sym::usize();
    }
    if d_lt > 0 {
        v.i_lt = sym::usize();
    }
    if d_ct > 0 {
        v.i_ct = sym::usize();
    }
    law_comm(mk_ty(s, &v));
    cover!(true);
}
pub fn comm_goal(s: usize, d: u32) {
    let mut v = Vars::of_binder(d, d, d);
    if d > 0 {
        v.i_ty = sym::usize();
        v.i_ty2 = sym::usize();
        v.i_lt = sym::usize();
        v.i_ct = sym::usize();
    }
    law_comm(mk_goal(s, &v));
    cover!(true);
}

include!("c25_classes.rs");
