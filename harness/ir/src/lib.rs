//! Kani harnesses over chalk-ir's public API (C18, C25, C26).
#![allow(unused_imports, dead_code)]
pub mod c18;
pub mod c25;
pub mod c26;
pub mod c28;
pub mod c29;
#[cfg(kani)] pub mod fold_probe;
