//! C29 — subtyping follows declared variance: the parts that are reachable without the
//! unifier's inference table.
//!
//!  * `Variance::xform` / `invert` against the variance table (sign algebra: Covariant = +1,
//!    Contravariant = -1, Invariant = 0; xform is multiplication, invert is negation);
//!  * `Zipper::zip_substs` (the default method every relater uses for ADTs, fn defs, tuples):
//!    position i is related at `ambient.xform(declared[i])`, at `Invariant` when no variances are
//!    declared; lengths handled pairwise;
//!  * `Zip for FnSubst` (function pointers): parameters at `ambient.xform(Contravariant)`, the
//!    return type at `ambient`.
//! A recording `Zipper` observes the variance every child pair is related at.

use chalk_ir::zip::{Zip, Zipper};
use chalk_ir::*;
use vinterner::gen::*;
use vinterner::*;

fn sign(v: Variance) -> i8 {
    match v {
        Variance::Covariant => 1,
        Variance::Contravariant => -1,
        Variance::Invariant => 0,
    }
}

vharness!(c29_q_variance_algebra, 2, {
    let a = sym_variance();
    let b = sym_variance();
    let c = sym_variance();
    assert!(sign(a.xform(b)) == sign(a) * sign(b), "C29: xform is not the variance product");
    assert!(sign(a.invert()) == -sign(a), "C29: invert");
    // consequences used by the relaters
    assert!(a.xform(b) == b.xform(a));
    assert!(a.xform(b).xform(c) == a.xform(b.xform(c)));
    assert!(a.invert().invert() == a);
    assert!(a.xform(Variance::Contravariant) == a.invert());
    assert!(a.xform(Variance::Covariant) == a);
    cover!(a.xform(b) == Variance::Covariant && a == Variance::Contravariant);
});

/// Records the variance at which each type / lifetime / const pair is related.
struct Recorder {
    n: usize,
    seen: [Option<Variance>; 6],
    first_id: [u64; 6],
    db: InvariantDb,
}
impl Recorder {
    fn new() -> Self {
        Recorder { n: 0, seen: [None; 6], first_id: [0; 6], db: InvariantDb }
    }
    fn rec(&mut self, v: Variance, id: u64) {
        assert!(self.n < 6);
        self.seen[self.n] = Some(v);
        self.first_id[self.n] = id;
        self.n += 1;
    }
}
fn foreign_id(t: &Ty<VI>) -> u64 {
    match t.kind(I) {
        TyKind::Foreign(ForeignDefId(VDefId(x))) => *x,
        _ => u64::MAX,
    }
}
impl Zipper<VI> for Recorder {
    fn zip_tys(&mut self, variance: Variance, a: &Ty<VI>, _b: &Ty<VI>) -> Fallible<()> {
        self.rec(variance, foreign_id(a));
        Ok(())
    }
    fn zip_lifetimes(&mut self, variance: Variance, _a: &Lifetime<VI>, _b: &Lifetime<VI>) -> Fallible<()> {
        self.rec(variance, u64::MAX - 1);
        Ok(())
    }
    fn zip_consts(&mut self, variance: Variance, _a: &Const<VI>, _b: &Const<VI>) -> Fallible<()> {
        self.rec(variance, u64::MAX - 2);
        Ok(())
    }
    fn zip_binders<T>(&mut self, variance: Variance, a: &Binders<T>, b: &Binders<T>) -> Fallible<()>
    where
        T: Clone + interner::HasInterner<Interner = VI> + Zip<VI> + fold::TypeFoldable<VI>,
    {
        Zip::zip_with(self, variance, a.skip_binders(), b.skip_binders())
    }
    fn interner(&self) -> VI {
        I
    }
    fn unification_database(&self) -> &dyn UnificationDatabase<VI> {
        &self.db
    }
}

fn args3() -> Substitution<VI> {
    // [ty, lifetime, ty] with distinguishable type ids 10 / 12
    subst(&[ga_ty(foreign(10)), ga_lt(sym_lifetime()), ga_ty(foreign(12))])
}

vharness!(c29_q_zip_substs_declared, 8, {
    let ambient = sym_variance();
    let d = [sym_variance(), sym_variance(), sym_variance()];
    let a = args3();
    let b = args3();
    let mut r = Recorder::new();
    let declared = Variances::from_iter(I, d.iter().copied());
    let res = r.zip_substs(ambient, Some(declared), a.as_slice(I), b.as_slice(I));
    assert!(res.is_ok());
    assert!(r.n == 3, "C29: every argument pair is related once");
    let mut i = 0;
    while i < 3 {
        assert!(r.seen[i] == Some(ambient.xform(d[i])), "C29: position related at the wrong variance");
        i += 1;
    }
    // in order: type 10, lifetime, type 12
    assert!(r.first_id[0] == 10 && r.first_id[1] == u64::MAX - 1 && r.first_id[2] == 12);
    cover!(r.seen[0] == Some(Variance::Contravariant) && r.seen[2] == Some(Variance::Covariant));
});

vharness!(c29_q_zip_substs_undeclared, 8, {
    let ambient = sym_variance();
    let a = args3();
    let b = args3();
    let mut r = Recorder::new();
    let res = r.zip_substs(ambient, None, a.as_slice(I), b.as_slice(I));
    assert!(res.is_ok() && r.n == 3);
    let mut i = 0;
    while i < 3 {
        assert!(r.seen[i] == Some(Variance::Invariant), "C29: undeclared positions are invariant");
        i += 1;
    }
    cover!(true);
});

vharness!(c29_q_fn_pointer_variance, 8, {
    let ambient = sym_variance();
    // fn(10, 11) -> 12
    let mk = || FnSubst(subst(&[ga_ty(foreign(10)), ga_ty(foreign(11)), ga_ty(foreign(12))]));
    let (a, b) = (mk(), mk());
    let mut r = Recorder::new();
    let res = Zip::zip_with(&mut r, ambient, &a, &b);
    assert!(res.is_ok() && r.n == 3);
    assert!(r.first_id[0] == 10 && r.first_id[1] == 11 && r.first_id[2] == 12);
    assert!(r.seen[0] == Some(ambient.invert()), "C29: fn parameters are contravariant");
    assert!(r.seen[1] == Some(ambient.invert()), "C29: fn parameters are contravariant");
    assert!(r.seen[2] == Some(ambient), "C29: the fn return type is covariant");
    cover!(ambient == Variance::Contravariant);
});


// Arity (added after seeded change R4-C29-a: the parameter slice of `b` was cut with `a`'s
// length, so a shorter left-hand fn pointer related to a longer one): fn pointers of different
// arity never relate, whichever side is longer, and nothing past the shorter one is compared.
vharness!(c29_q_fn_pointer_arity, 8, {
    let ambient = sym_variance();
    // fn(10) -> 12  vs  fn(10, 11) -> 12
    let short = FnSubst(subst(&[ga_ty(foreign(10)), ga_ty(foreign(12))]));
    let long = FnSubst(subst(&[ga_ty(foreign(10)), ga_ty(foreign(11)), ga_ty(foreign(12))]));
    let mut r = Recorder::new();
    assert!(Zip::zip_with(&mut r, ambient, &short, &long).is_err(), "C29: fn pointers of different arity relate (shorter on the left)");
    let mut r2 = Recorder::new();
    assert!(Zip::zip_with(&mut r2, ambient, &long, &short).is_err(), "C29: fn pointers of different arity relate (longer on the left)");
    // fn() -> 12  vs  fn(10, 11) -> 12: two apart
    let none = FnSubst(subst(&[ga_ty(foreign(12))]));
    let mut r3 = Recorder::new();
    assert!(Zip::zip_with(&mut r3, ambient, &none, &long).is_err(), "C29: fn pointers of different arity relate (no parameters on the left)");
    let mut r4 = Recorder::new();
    assert!(Zip::zip_with(&mut r4, ambient, &long, &none).is_err(), "C29: fn pointers of different arity relate (no parameters on the right)");
    cover!(ambient == Variance::Covariant);
});
