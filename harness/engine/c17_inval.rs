//! C17 (and the guidance part of C01) — "the check that decides no future answer can change the
//! guidance never wrongly says so": `SubstitutionExt::may_invalidate` / `MayInvalidate`
//! (chalk-engine/src/slg.rs, private; this module is appended to a copy of that file).
//!
//! Step harness: `new` and `current` are one constructor application over leaf children whose
//! kinds are fixed per class (bound variable / ground leaf / scalar / placeholder) and whose
//! payloads — in particular the *indices of the bound variables of `current`* — are symbolic.
//! Oracle: `new` is an instance of `current` (one-sided matching; the bound variables of
//! `current` are wildcards that must be instantiated *consistently*; the bound variables of `new`
//! are opaque). Assertion: `!new.may_invalidate(current)  ⇒  instance_of(new, current)`.

use super::*;
use vinterner::gen::*;
use vinterner::*;
use vinterner::{cover, sharness};

type VI = VInterner;

/// bindings of `current`'s bound variables (by index within the canonical binder)
struct Binds {
    n: usize,
    idx: [usize; 4],
    val: [Option<GenericArg<VI>>; 4],
}
impl Binds {
    fn new() -> Self {
        Binds { n: 0, idx: [0; 4], val: [None; 4] }
    }
    /// bind variable `i` to `v`, or check consistency with an earlier binding
    fn bind(&mut self, i: usize, v: GenericArg<VI>) -> bool {
        let mut k = 0;
        while k < self.n {
            if self.idx[k] == i {
                return self.val[k].unwrap() == v;
            }
            k += 1;
        }
        assert!(self.n < 4);
        self.idx[self.n] = i;
        self.val[self.n] = Some(v);
        self.n += 1;
        true
    }
}

fn m_ty(n: &Ty<VI>, c: &Ty<VI>, b: &mut Binds, fuel: u32) -> bool {
    if let TyKind::BoundVar(bv) = c.kind(I) {
        return b.bind(bv.index, ga_ty(*n));
    }
    if fuel == 0 {
        return n == c;
    }
    match (n.kind(I), c.kind(I)) {
        (TyKind::Adt(i, sa), TyKind::Adt(j, sb)) => i == j && m_args(sa, sb, b, fuel),
        (TyKind::AssociatedType(i, sa), TyKind::AssociatedType(j, sb)) => i == j && m_args(sa, sb, b, fuel),
        (TyKind::Tuple(i, sa), TyKind::Tuple(j, sb)) => i == j && m_args(sa, sb, b, fuel),
        (TyKind::OpaqueType(i, sa), TyKind::OpaqueType(j, sb)) => i == j && m_args(sa, sb, b, fuel),
        (TyKind::FnDef(i, sa), TyKind::FnDef(j, sb)) => i == j && m_args(sa, sb, b, fuel),
        (TyKind::Closure(i, sa), TyKind::Closure(j, sb)) => i == j && m_args(sa, sb, b, fuel),
        (TyKind::Coroutine(i, sa), TyKind::Coroutine(j, sb)) => i == j && m_args(sa, sb, b, fuel),
        (TyKind::CoroutineWitness(i, sa), TyKind::CoroutineWitness(j, sb)) => {
            i == j && m_args(sa, sb, b, fuel)
        }
        (TyKind::Slice(x), TyKind::Slice(y)) => m_ty(x, y, b, fuel - 1),
        (TyKind::Raw(ma, x), TyKind::Raw(mb, y)) => ma == mb && m_ty(x, y, b, fuel - 1),
        (TyKind::Ref(ma, la, x), TyKind::Ref(mb, lb, y)) => {
            ma == mb && m_lt(la, lb, b) && m_ty(x, y, b, fuel - 1)
        }
        (TyKind::Array(x, ka), TyKind::Array(y, kb)) => m_ty(x, y, b, fuel - 1) && m_const(ka, kb, b),
        (TyKind::Alias(AliasTy::Projection(p)), TyKind::Alias(AliasTy::Projection(q))) => {
            p.associated_ty_id == q.associated_ty_id && m_args(&p.substitution, &q.substitution, b, fuel)
        }
        (TyKind::Alias(AliasTy::Opaque(p)), TyKind::Alias(AliasTy::Opaque(q))) => {
            p.opaque_ty_id == q.opaque_ty_id && m_args(&p.substitution, &q.substitution, b, fuel)
        }
        // leaves and everything else: syntactic identity
        _ => n == c,
    }
}
fn m_lt(n: &Lifetime<VI>, c: &Lifetime<VI>, b: &mut Binds) -> bool {
    if let LifetimeData::BoundVar(bv) = c.data(I) {
        return b.bind(bv.index, ga_lt(*n));
    }
    n == c
}
fn m_const(n: &Const<VI>, c: &Const<VI>, b: &mut Binds) -> bool {
    if let ConstValue::BoundVar(bv) = &c.data(I).value {
        return n.data(I).ty == c.data(I).ty && b.bind(bv.index, ga_const(*n));
    }
    n == c
}
fn m_args(sa: &Substitution<VI>, sb: &Substitution<VI>, b: &mut Binds, fuel: u32) -> bool {
    let (xa, xb) = (sa.as_slice(I), sb.as_slice(I));
    if xa.len() != xb.len() {
        return false;
    }
    let mut i = 0;
    while i < xa.len() {
        let ok = match (xa[i].data(I), xb[i].data(I)) {
            (GenericArgData::Ty(x), GenericArgData::Ty(y)) => m_ty(x, y, b, fuel - 1),
            (GenericArgData::Lifetime(x), GenericArgData::Lifetime(y)) => m_lt(x, y, b),
            (GenericArgData::Const(x), GenericArgData::Const(y)) => m_const(x, y, b),
            _ => false,
        };
        if !ok {
            return false;
        }
        i += 1;
    }
    true
}

/// leaf kinds for this harness: 0 Foreign, 1 Scalar, 2 Placeholder, 4 BoundVar(^0.i)
/// The canonical binder of the guidance is `[Ty, Ty, Const]`: type variables have index 0 or 1,
/// the const variable index 2 (a canonical substitution is well-kinded).
fn leaf(tag: usize) -> Ty<VI> {
    if tag == 4 {
        ty(TyKind::BoundVar(BoundVar::new(DebruijnIndex::INNERMOST, sym::below(2) as usize)))
    } else {
        mk_leaf(tag)
    }
}
/// A const without free inference variables (canonical substitutions have none; MayInvalidate
/// panics on them by contract): bound variable ^0.2, placeholder or concrete value.
fn canon_const(t: Ty<VI>) -> Const<VI> {
    let ph = sym_placeholder();
    let cc = sym::u64();
    let value = match sym::below(3) {
        0 => ConstValue::BoundVar(BoundVar::new(DebruijnIndex::INNERMOST, 2)),
        1 => ConstValue::Placeholder(ph),
        _ => ConstValue::Concrete(ConcreteConst { interned: cc }),
    };
    ConstData { ty: t, value }.intern(I)
}
fn kids(l0: usize, l1: usize) -> Kids {
    let c0 = leaf(l0);
    let c1 = leaf(l1);
    let kt = ty(TyKind::Scalar(Scalar::Uint(UintTy::Usize)));
    Kids { c0, c1, l: lt(LifetimeData::Static), k: canon_const(kt), with_lifetime_arg: false, with_const_arg: false }
}

fn canonical(t: Ty<VI>) -> (Substitution<VI>, Canonical<Substitution<VI>>) {
    let s = subst(&[ga_ty(t)]);
    let kinds = CanonicalVarKinds::from_iter(
        I,
        [
            WithKind::new(VariableKind::Ty(TyVariableKind::General), UniverseIndex::ROOT),
            WithKind::new(VariableKind::Ty(TyVariableKind::General), UniverseIndex::ROOT),
            WithKind::new(
                VariableKind::Const(ty(TyKind::Scalar(Scalar::Uint(UintTy::Usize)))),
                UniverseIndex::ROOT,
            ),
        ],
    );
    (s, Canonical { value: s, binders: kinds })
}

/// `new = K(new kids)`, `current = K'(current kids)`; one query per (K, K', leaf kinds).
fn step(k_new: usize, ln: (usize, usize), k_cur: usize, lc: (usize, usize)) {
    step_core(k_new, ln, k_cur, lc);
    cover!(true);
}

fn step_core(k_new: usize, ln: (usize, usize), k_cur: usize, lc: (usize, usize)) {
    let kn = kids(ln.0, ln.1);
    let kc = kids(lc.0, lc.1);
    let new = mk_top(k_new, &kn);
    let cur = mk_top(k_cur, &kc);
    let (new_s, _) = canonical(new);
    let (_, cur_c) = canonical(cur);
    let inval = new_s.may_invalidate(I, &cur_c);
    let mut b = Binds::new();
    let inst = m_ty(&new, &cur, &mut b, 2);
    // Is the guidance non-linear (the same bound variable in both child positions)? That input
    // class is the known finding F1 (known_findings.json); it gets its own assertion so that any
    // *other* violation is still reported.
    let nonlinear = match (kc.c0.kind(I), kc.c1.kind(I)) {
        (TyKind::BoundVar(x), TyKind::BoundVar(y)) => x.index == y.index,
        _ => false,
    };
    if nonlinear {
        assert!(
            inval || inst,
            "C17-F1: may_invalidate ignores that the guidance repeats a variable: the answer is not an instance of it"
        );
    } else {
        assert!(
            inval || inst,
            "C17: may_invalidate said no future answer can change the guidance, but the answer is not an instance of it"
        );
    }
}

/// Both verdicts occur (the check is neither trivially "may invalidate" nor trivially "final").
fn both_verdicts() {
    let kn = kids(0, 0);
    let kc = kids(4, 0);
    let new = mk_top(3, &kn);
    let cur = mk_top(3, &kc);
    let (new_s, _) = canonical(new);
    let (_, cur_c) = canonical(cur);
    let inval = new_s.may_invalidate(I, &cur_c);
    cover!(!inval);
    cover!(inval);
}

/// `current` is a bare bound variable or ground leaf at the top (no constructor)
fn step_leaf(ln: usize, lc: usize) {
    let new = leaf(ln);
    let cur = leaf(lc);
    let (new_s, _) = canonical(new);
    let (_, cur_c) = canonical(cur);
    let inval = new_s.may_invalidate(I, &cur_c);
    let mut b = Binds::new();
    let inst = m_ty(&new, &cur, &mut b, 1);
    assert!(inval || inst, "C17: may_invalidate wrongly said the guidance is final");
    cover!(true);
}

/// Systematic rows (thorough tier): the same constructor `k` on both sides, the guidance's
/// children of kinds `lc`, the candidate answer's first child of kind `ln0` and its second child
/// of EVERY kind (ground / scalar / placeholder / bound variable).
fn row(k: usize, lc: (usize, usize), ln0: usize) {
    const KINDS: [usize; 4] = [0, 1, 2, 4];
    let mut j = 0;
    while j < 4 {
        arena_reset();
        step_core(k, (ln0, KINDS[j]), k, lc);
        j += 1;
    }
    cover!(true);
}
macro_rules! rows {
    ($($name:ident: $k:expr, $lc:expr, $ln0:expr;)*) => {$(
        sharness!($name, 8, { row($k, $lc, $ln0) });
    )*};
}
include!("/verif/harness/engine/c17_inval_rows.rs");

macro_rules! steps {
    ($($name:ident: $kn:expr, $ln:expr, $kc:expr, $lc:expr;)*) => {$(
        sharness!($name, 8, { step($kn, $ln, $kc, $lc) });
    )*};
}

// constructor numbering as in vinterner::gen::TOPS
steps! {
    // the shape of F1: ground pair against a pair of (possibly equal) bound variables
    c17_q_inval_tuple_ground_vs_vars: 3, (0, 0), 3, (4, 4);
    c17_q_inval_adt_ground_vs_vars: 0, (0, 0), 0, (4, 4);
    c17_q_inval_tuple_ground_vs_var_ground: 3, (0, 0), 3, (4, 0);
    c17_q_inval_tuple_ground_vs_ground: 3, (0, 0), 3, (0, 0);
    c17_q_inval_tuple_vars_vs_vars: 3, (4, 4), 3, (4, 4);
    c17_q_inval_tuple_var_vs_ground: 3, (4, 0), 3, (0, 0);
    c17_q_inval_adt_scalar_ph_vs_vars: 0, (1, 2), 0, (4, 4);
    c17_q_inval_adt_ph_vs_ph: 0, (2, 2), 0, (2, 4);
    c17_t_inval_adt_scalar_vs_scalar: 0, (1, 1), 0, (1, 4);
    c17_q_inval_fndef_ground_vs_vars: 9, (0, 0), 9, (4, 4);
    c17_t_inval_assoc_ground_vs_vars: 1, (0, 0), 1, (4, 4);
    c17_t_inval_opaque_ground_vs_vars: 8, (0, 0), 8, (4, 4);
    c17_t_inval_closure_ground_vs_vars: 12, (0, 0), 12, (4, 4);
    c17_t_inval_coroutine_ground_vs_vars: 13, (0, 0), 13, (4, 4);
    c17_t_inval_witness_ground_vs_vars: 14, (0, 0), 14, (4, 4);
    c17_q_inval_alias_ground_vs_vars: 19, (0, 0), 19, (4, 4);
    c17_q_inval_slice_ground_vs_var: 5, (0, 0), 5, (4, 0);
    c17_q_inval_raw_ground_vs_var: 6, (0, 0), 6, (4, 0);
    c17_t_inval_raw_ground_vs_ground: 6, (0, 0), 6, (0, 0);
    c17_q_inval_array_ground_vs_var: 4, (0, 0), 4, (4, 0);
    c17_t_inval_array_ground_vs_ground: 4, (1, 0), 4, (1, 0);
    c17_t_inval_function_vs_function: 20, (0, 0), 20, (4, 4);
    c17_t_inval_dyn_vs_dyn: 18, (0, 0), 18, (4, 0);
    // ground against ground, per list-carrying constructor (quick-tier twin of the thorough rows;
    // added after seeded change R4-C17-a: the FnDef arm compared the answer's arguments with themselves)
    c17_q_inval_fndef_ground_vs_ground: 9, (0, 0), 9, (0, 0);
    c17_q_inval_adt_ground_vs_ground: 0, (0, 0), 0, (0, 0);
    c17_q_inval_assoc_ground_vs_ground: 1, (0, 0), 1, (0, 0);
    c17_q_inval_opaque_ground_vs_ground: 8, (0, 0), 8, (0, 0);
    c17_q_inval_closure_ground_vs_ground: 12, (0, 0), 12, (0, 0);
    c17_q_inval_coroutine_ground_vs_ground: 13, (0, 0), 13, (0, 0);
    c17_q_inval_witness_ground_vs_ground: 14, (0, 0), 14, (0, 0);
    c17_q_inval_alias_ground_vs_ground: 19, (0, 0), 19, (0, 0);
    // constructor mismatches
    c17_q_inval_tuple_vs_adt: 3, (0, 0), 0, (4, 4);
    c17_t_inval_slice_vs_raw: 5, (0, 0), 6, (4, 0);
    c17_t_inval_scalar_vs_str: 2, (0, 0), 10, (0, 0);
    c17_t_inval_scalar_vs_scalar: 2, (0, 0), 2, (0, 0);
    c17_t_inval_never_vs_never: 11, (0, 0), 11, (0, 0);
    c17_t_inval_foreign_vs_foreign: 15, (0, 0), 15, (0, 0);
    c17_t_inval_error_vs_error: 16, (0, 0), 16, (0, 0);
    c17_t_inval_placeholder_vs_placeholder: 17, (0, 0), 17, (0, 0);
}
sharness!(c17_q_inval_both_verdicts, 8, { both_verdicts() });
sharness!(c17_q_inval_leaf_ground_vs_var, 8, { step_leaf(0, 4) });
sharness!(c17_q_inval_leaf_var_vs_ground, 8, { step_leaf(4, 0) });
sharness!(c17_t_inval_leaf_var_vs_var, 8, { step_leaf(4, 4) });
sharness!(c17_q_inval_leaf_ph_vs_ph, 8, { step_leaf(2, 2) });
