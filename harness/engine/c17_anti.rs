//! C17, first sentence — "every merged answer is an instance of the result": one step of
//! `AntiUnifier::aggregate_tys` (chalk-engine/src/slg/aggregate.rs, private; this module is
//! appended to a copy of that file).
//!
//! A class fixes the constructor on each side and, per id / child pair, whether the two sides
//! agree (an agreeing pair shares one *symbolic* value, a disagreeing pair uses two distinct
//! constants: the anti-unifier interns on both outcomes of each comparison, and the number of
//! interning operations per path must stay concrete, DESIGN.md §2.2). Assertions: both inputs
//! are instances of the result (fresh inference variables are wildcards), the result is linear
//! (all fresh variables distinct), and it is no more general than necessary at the top: when the
//! constructors and ids agree the result has that constructor.

use super::*;
use chalk_solve::infer::InferenceTable;
use vinterner::gen::*;
use vinterner::*;
use vinterner::{cover, sharness};

type VI = VInterner;

/// instance-of with the result's inference variables as (linear) wildcards
fn inst(t: &Ty<VI>, r: &Ty<VI>, fuel: u32, vars: &mut [u32; 6], nvars: &mut usize) -> bool {
    if let TyKind::InferenceVar(v, _) = r.kind(I) {
        // linearity: no fresh variable occurs twice in the result (checked on the first walk)
        let mut k = 0;
        while k < *nvars {
            if vars[k] == v.index() {
                return false;
            }
            k += 1;
        }
        vars[*nvars] = v.index();
        *nvars += 1;
        return true;
    }
    if fuel == 0 {
        return t == r;
    }
    match (t.kind(I), r.kind(I)) {
        (TyKind::Adt(i, sa), TyKind::Adt(j, sb)) => i == j && inst_args(sa, sb, fuel, vars, nvars),
        (TyKind::Tuple(i, sa), TyKind::Tuple(j, sb)) => i == j && inst_args(sa, sb, fuel, vars, nvars),
        (TyKind::FnDef(i, sa), TyKind::FnDef(j, sb)) => i == j && inst_args(sa, sb, fuel, vars, nvars),
        (TyKind::Closure(i, sa), TyKind::Closure(j, sb)) => i == j && inst_args(sa, sb, fuel, vars, nvars),
        (TyKind::AssociatedType(i, sa), TyKind::AssociatedType(j, sb)) => i == j && inst_args(sa, sb, fuel, vars, nvars),
        (TyKind::OpaqueType(i, sa), TyKind::OpaqueType(j, sb)) => i == j && inst_args(sa, sb, fuel, vars, nvars),
        (TyKind::Slice(x), TyKind::Slice(y)) => inst(x, y, fuel - 1, vars, nvars),
        (TyKind::Raw(ma, x), TyKind::Raw(mb, y)) => ma == mb && inst(x, y, fuel - 1, vars, nvars),
        (TyKind::Ref(ma, la, x), TyKind::Ref(mb, lb, y)) => {
            ma == mb && inst_lt(la, lb, vars, nvars) && inst(x, y, fuel - 1, vars, nvars)
        }
        (TyKind::Array(x, ca), TyKind::Array(y, cb)) => {
            inst(x, y, fuel - 1, vars, nvars) && inst_const(ca, cb, vars, nvars)
        }
        _ => t == r,
    }
}
fn fresh(v: &InferenceVar, vars: &mut [u32; 6], nvars: &mut usize) -> bool {
    let mut k = 0;
    while k < *nvars {
        if vars[k] == v.index() {
            return false;
        }
        k += 1;
    }
    vars[*nvars] = v.index();
    *nvars += 1;
    true
}
fn inst_lt(l: &Lifetime<VI>, r: &Lifetime<VI>, vars: &mut [u32; 6], nvars: &mut usize) -> bool {
    if let LifetimeData::InferenceVar(v) = r.data(I) {
        return fresh(v, vars, nvars);
    }
    l == r
}
fn inst_const(c: &Const<VI>, r: &Const<VI>, vars: &mut [u32; 6], nvars: &mut usize) -> bool {
    if let ConstValue::InferenceVar(v) = &r.data(I).value {
        return c.data(I).ty == r.data(I).ty && fresh(v, vars, nvars);
    }
    c == r
}
fn inst_args(sa: &Substitution<VI>, sb: &Substitution<VI>, fuel: u32, vars: &mut [u32; 6], nvars: &mut usize) -> bool {
    let (xa, xb) = (sa.as_slice(I), sb.as_slice(I));
    if xa.len() != xb.len() {
        return false;
    }
    let mut i = 0;
    while i < xa.len() {
        let ok = match (xa[i].data(I), xb[i].data(I)) {
            (GenericArgData::Ty(x), GenericArgData::Ty(y)) => inst(x, y, fuel - 1, vars, nvars),
            _ => xa[i] == xb[i],
        };
        if !ok {
            return false;
        }
        i += 1;
    }
    true
}

/// Builds `K(c0, c1)` for K in {Adt 0, Tuple 3, FnDef 9, Closure 12, AssociatedType 1, OpaqueType 8,
/// Slice 5, Raw 6}.
fn mk(k: usize, id: u64, c0: Ty<VI>, c1: Ty<VI>) -> Ty<VI> {
    let args = subst(&[ga_ty(c0), ga_ty(c1)]);
    ty(match k {
        0 => TyKind::Adt(adt_id(id), args),
        1 => TyKind::AssociatedType(AssocTypeId(did(id)), args),
        3 => TyKind::Tuple(2, args),
        8 => TyKind::OpaqueType(OpaqueTyId(did(id)), args),
        9 => TyKind::FnDef(FnDefId(did(id)), args),
        12 => TyKind::Closure(ClosureId(did(id)), args),
        5 => TyKind::Slice(c0),
        7 => TyKind::Raw(Mutability::Not, c0),
        _ => TyKind::Raw(Mutability::Mut, c0),
    })
}

/// `same_id`, `same_c0`, `same_c1`: whether the two sides agree on the id / first / second child.
fn step(k1: usize, k2: usize, same_id: bool, same_c0: bool, same_c1: bool) {
    step_core(k1, k2, same_id, same_c0, same_c1);
    cover!(true);
}

fn step_core(k1: usize, k2: usize, same_id: bool, same_c0: bool, same_c1: bool) {
    // The table (its empty `Vec`s) is created before anything is interned: a `Vec::new()` that
    // follows a write to the interner's static arenas makes CBMC report the first `push` as a
    // write through an invalid pointer in some checkout directories (DESIGN.md B19).
    let infer: InferenceTable<VI> = InferenceTable::new();
    step_core_with(infer, k1, k2, same_id, same_c0, same_c1)
}

fn step_core_with(mut infer: InferenceTable<VI>, k1: usize, k2: usize, same_id: bool, same_c0: bool, same_c1: bool) {
    let a0 = sym::u64();
    let a1 = sym::u64();
    // top-level ids are concrete in both classes: an id read back out of `TyKind::Adt` (the widest
    // variant in this layout) is opaque to CBMC, `x == x` is then not folded and the anti-unifier
    // interns on both outcomes (measured: DNF at 900 s with a shared symbolic id)
    let (id1, id2) = if same_id { (7, 7) } else { (1, 2) };
    let (c0a, c0b) = if same_c0 { (a0, a0) } else { (10, 11) };
    let (c1a, c1b) = if same_c1 { (a1, a1) } else { (20, 21) };
    let t1 = mk(k1, id1, foreign(c0a), foreign(c1a));
    let t2 = mk(k2, id2, foreign(c0b), foreign(c1b));
    let r = {
        let mut au = AntiUnifier { infer: &mut infer, universe: UniverseIndex::ROOT, interner: I };
        au.aggregate_tys(&t1, &t2)
    };
    let mut vars = [0u32; 6];
    let mut n = 0usize;
    assert!(inst(&t1, &r, 2, &mut vars, &mut n), "C17: a merged answer is not an instance of the aggregate (or it is not linear)");
    let mut vars2 = [0u32; 6];
    let mut n2 = 0usize;
    assert!(inst(&t2, &r, 2, &mut vars2, &mut n2), "C17: a merged answer is not an instance of the aggregate");
    // precision at the top: agreeing constructor and id are kept
    let keeps_top = k1 == k2 && (same_id || matches!(k1, 3 | 5 | 6 | 7));
    if keeps_top {
        assert!(!matches!(r.kind(I), TyKind::InferenceVar(..)), "C17: aggregate lost an agreeing constructor");
        // agreeing children are kept, disagreeing ones become exactly one fresh variable each
        let expect_vars = match k1 {
            5 | 6 | 7 => (!same_c0) as usize,
            _ => (!same_c0) as usize + (!same_c1) as usize,
        };
        assert!(n == expect_vars, "C17: aggregate generalises an agreeing position or reuses a variable");
    } else {
        assert!(matches!(r.kind(I), TyKind::InferenceVar(..)));
    }
    std::mem::forget(infer);
}

/// `&m 'l F` on both sides: mutability / lifetime / pointee agree or not.
fn ref_step(same_m: bool, same_lt: bool, same_c0: bool) {
    // The table (its empty `Vec`s) is created before anything is interned: a `Vec::new()` that
    // follows a write to the interner's static arenas makes CBMC report the first `push` as a
    // write through an invalid pointer in some checkout directories (DESIGN.md B19).
    let mut infer: InferenceTable<VI> = InferenceTable::new();
    let a0 = sym::u64();
    let (c0a, c0b) = if same_c0 { (a0, a0) } else { (10, 11) };
    let (m1, m2) = if same_m { (Mutability::Not, Mutability::Not) } else { (Mutability::Not, Mutability::Mut) };
    let (l1, l2) = if same_lt {
        (lt(LifetimeData::Static), lt(LifetimeData::Static))
    } else {
        (lt(LifetimeData::Static), lt(LifetimeData::Placeholder(sym_placeholder())))
    };
    let t1 = ty(TyKind::Ref(m1, l1, foreign(c0a)));
    let t2 = ty(TyKind::Ref(m2, l2, foreign(c0b)));
    let r = {
        let mut au = AntiUnifier { infer: &mut infer, universe: UniverseIndex::ROOT, interner: I };
        au.aggregate_tys(&t1, &t2)
    };
    let (mut v1, mut n1) = ([0u32; 6], 0usize);
    let (mut v2, mut n2) = ([0u32; 6], 0usize);
    assert!(inst(&t1, &r, 2, &mut v1, &mut n1), "C17: a merged answer is not an instance of the aggregate (or it is not linear)");
    assert!(inst(&t2, &r, 2, &mut v2, &mut n2), "C17: a merged answer is not an instance of the aggregate");
    if same_m {
        assert!(matches!(r.kind(I), TyKind::Ref(..)), "C17: aggregate lost an agreeing constructor");
        assert!(n1 == (!same_lt) as usize + (!same_c0) as usize, "C17: aggregate generalises an agreeing position or reuses a variable");
    } else {
        assert!(matches!(r.kind(I), TyKind::InferenceVar(..)));
    }
    std::mem::forget(infer);
    cover!(true);
}

/// `[F; N]` on both sides; const kinds: 0 concrete (same value), 1 concrete (different values),
/// 2 placeholder vs concrete, 3 placeholder (same), 4 bound variable vs concrete
fn array_step(same_c0: bool, consts: usize) {
    // The table (its empty `Vec`s) is created before anything is interned: a `Vec::new()` that
    // follows a write to the interner's static arenas makes CBMC report the first `push` as a
    // write through an invalid pointer in some checkout directories (DESIGN.md B19).
    let mut infer: InferenceTable<VI> = InferenceTable::new();
    let a0 = sym::u64();
    let (c0a, c0b) = if same_c0 { (a0, a0) } else { (10, 11) };
    let usize_ty = ty(TyKind::Scalar(Scalar::Uint(UintTy::Usize)));
    let mkc = |v: ConstValue<VI>| ConstData { ty: usize_ty, value: v }.intern(I);
    let ph = sym_placeholder();
    let (k1, k2) = match consts {
        0 => (mkc(ConstValue::Concrete(ConcreteConst { interned: 3 })), mkc(ConstValue::Concrete(ConcreteConst { interned: 3 }))),
        1 => (mkc(ConstValue::Concrete(ConcreteConst { interned: 3 })), mkc(ConstValue::Concrete(ConcreteConst { interned: 4 }))),
        2 => (mkc(ConstValue::Placeholder(ph)), mkc(ConstValue::Concrete(ConcreteConst { interned: 4 }))),
        3 => (mkc(ConstValue::Placeholder(ph)), mkc(ConstValue::Placeholder(ph))),
        _ => (mkc(ConstValue::BoundVar(BoundVar::new(DebruijnIndex::INNERMOST, 0))), mkc(ConstValue::Concrete(ConcreteConst { interned: 4 }))),
    };
    let t1 = ty(TyKind::Array(foreign(c0a), k1));
    let t2 = ty(TyKind::Array(foreign(c0b), k2));
    let r = {
        let mut au = AntiUnifier { infer: &mut infer, universe: UniverseIndex::ROOT, interner: I };
        au.aggregate_tys(&t1, &t2)
    };
    let (mut v1, mut n1) = ([0u32; 6], 0usize);
    let (mut v2, mut n2) = ([0u32; 6], 0usize);
    assert!(inst(&t1, &r, 2, &mut v1, &mut n1), "C17: a merged answer is not an instance of the aggregate (or it is not linear)");
    assert!(inst(&t2, &r, 2, &mut v2, &mut n2), "C17: a merged answer is not an instance of the aggregate");
    assert!(matches!(r.kind(I), TyKind::Array(..)), "C17: aggregate lost an agreeing constructor");
    let const_same = consts == 0 || consts == 3;
    assert!(n1 == (!same_c0) as usize + (!const_same) as usize, "C17: aggregate generalises an agreeing position or reuses a variable");
    std::mem::forget(infer);
    cover!(true);
}

/// leaf against leaf: 0 Foreign, 1 Scalar(u8 / i32), 2 Placeholder, 4 BoundVar, 5 Error, 6 Str, 7 Never
fn leaf_step(la: usize, lb: usize, same: bool) {
    // The table (its empty `Vec`s) is created before anything is interned: a `Vec::new()` that
    // follows a write to the interner's static arenas makes CBMC report the first `push` as a
    // write through an invalid pointer in some checkout directories (DESIGN.md B19).
    let mut infer: InferenceTable<VI> = InferenceTable::new();
    let x = sym::u64();
    let ph = sym_placeholder();
    let mkl = |tag: usize, second: bool| -> Ty<VI> {
        ty(match tag {
            0 => TyKind::Foreign(ForeignDefId(did(if same || !second { x } else { x ^ 1 }))),
            1 => TyKind::Scalar(if same || !second { Scalar::Uint(UintTy::U8) } else { Scalar::Int(IntTy::I32) }),
            2 => TyKind::Placeholder(if same || !second { ph } else { PlaceholderIndex { ui: ph.ui, idx: ph.idx ^ 1 } }),
            3 => TyKind::Placeholder(if !second { ph } else { PlaceholderIndex { ui: UniverseIndex { counter: ph.ui.counter ^ 1 }, idx: ph.idx } }),
            4 => TyKind::BoundVar(BoundVar::new(DebruijnIndex::INNERMOST, 0)),
            5 => TyKind::Error,
            6 => TyKind::Str,
            _ => TyKind::Never,
        })
    };
    let t1 = mkl(la, false);
    let t2 = mkl(lb, true);
    let r = {
        let mut au = AntiUnifier { infer: &mut infer, universe: UniverseIndex::ROOT, interner: I };
        au.aggregate_tys(&t1, &t2)
    };
    let (mut v1, mut n1) = ([0u32; 6], 0usize);
    let (mut v2, mut n2) = ([0u32; 6], 0usize);
    assert!(inst(&t1, &r, 1, &mut v1, &mut n1), "C17: a merged answer is not an instance of the aggregate");
    assert!(inst(&t2, &r, 1, &mut v2, &mut n2), "C17: a merged answer is not an instance of the aggregate");
    // equal ground leaves are kept; bound variables always generalise
    if la == lb && same && la != 4 {
        assert!(r == t1, "C17: aggregate generalises two equal leaves");
    }
    std::mem::forget(infer);
    cover!(true);
}

sharness!(c17_q_anti_ref_same_all, 8, { ref_step(true, true, true) });
sharness!(c17_q_anti_ref_diff_lifetime, 8, { ref_step(true, false, true) });
sharness!(c17_q_anti_ref_diff_mutability, 8, { ref_step(false, true, true) });
sharness!(c17_t_anti_ref_diff_lifetime_and_pointee, 8, { ref_step(true, false, false) });
sharness!(c17_q_anti_array_same, 8, { array_step(true, 0) });
sharness!(c17_t_anti_array_placeholder_same, 8, { array_step(true, 3) });
// Withdrawn (DESIGN.md B15): the three classes in which the array lengths differ
// (`array_step(_, 1 | 2 | 4)`, i.e. `new_const_variable`) end in CBMC pointer-check failures inside
// ena's `Vec::push` that do not reproduce natively - spurious traces, reported as inconclusive.
sharness!(c17_q_anti_leaf_foreign_same, 8, { leaf_step(0, 0, true) });
sharness!(c17_q_anti_leaf_foreign_diff, 8, { leaf_step(0, 0, false) });
sharness!(c17_q_anti_leaf_scalar_diff, 8, { leaf_step(1, 1, false) });
sharness!(c17_t_anti_leaf_scalar_same, 8, { leaf_step(1, 1, true) });
sharness!(c17_q_anti_leaf_placeholder_diff, 8, { leaf_step(2, 2, false) });
sharness!(c17_t_anti_leaf_placeholder_same, 8, { leaf_step(2, 2, true) });
sharness!(c17_q_anti_leaf_placeholder_diff_universe, 8, { leaf_step(3, 3, false) });
sharness!(c17_q_anti_leaf_boundvar, 8, { leaf_step(4, 4, true) });
sharness!(c17_t_anti_leaf_foreign_vs_scalar, 8, { leaf_step(0, 1, true) });
sharness!(c17_t_anti_leaf_str_vs_never, 8, { leaf_step(6, 7, true) });
sharness!(c17_t_anti_leaf_error, 8, { leaf_step(5, 5, true) });

/// Systematic rows (thorough tier): constructor `k1` against `k2`, ids agreeing or not, all four
/// agreement patterns of the children.
fn anti_row(k1: usize, k2: usize, same_id: bool) {
    // all four tables first, before anything is interned (B19)
    let t0: InferenceTable<VI> = InferenceTable::new();
    let t1: InferenceTable<VI> = InferenceTable::new();
    let t2: InferenceTable<VI> = InferenceTable::new();
    let t3: InferenceTable<VI> = InferenceTable::new();
    step_core_with(t0, k1, k2, same_id, false, false);
    arena_reset();
    step_core_with(t1, k1, k2, same_id, true, false);
    arena_reset();
    step_core_with(t2, k1, k2, same_id, false, true);
    arena_reset();
    step_core_with(t3, k1, k2, same_id, true, true);
    cover!(true);
}
macro_rules! anti_rows {
    ($($name:ident: $k1:expr, $k2:expr, $id:expr;)*) => {$(
        sharness!($name, 8, { anti_row($k1, $k2, $id) });
    )*};
}
anti_rows! {
    c17_t_anti_row_adt_same_id: 0, 0, true;
    c17_t_anti_row_adt_diff_id: 0, 0, false;
    c17_t_anti_row_assoc_same_id: 1, 1, true;
    c17_t_anti_row_tuple: 3, 3, true;
    c17_t_anti_row_opaque_same_id: 8, 8, true;
    c17_t_anti_row_fndef_same_id: 9, 9, true;
    c17_t_anti_row_fndef_diff_id: 9, 9, false;
    c17_t_anti_row_closure_same_id: 12, 12, true;
    c17_t_anti_row_slice: 5, 5, true;
    c17_t_anti_row_raw_mut: 6, 6, true;
    c17_t_anti_row_raw_const: 7, 7, true;
    c17_t_anti_row_raw_mixed: 6, 7, true;
    c17_t_anti_row_adt_vs_tuple: 0, 3, true;
    c17_t_anti_row_fndef_vs_closure: 9, 12, true;
}

macro_rules! steps {
    ($($name:ident: $k1:expr, $k2:expr, $i:expr, $a:expr, $b:expr;)*) => {$(
        sharness!($name, 8, { step($k1, $k2, $i, $a, $b) });
    )*};
}
steps! {
    c17_q_anti_adt_same_same_diff: 0, 0, true, true, false;
    c17_q_anti_adt_same_diff_diff: 0, 0, true, false, false;
    c17_q_anti_adt_same_same_same: 0, 0, true, true, true;
    c17_q_anti_adt_diff_id: 0, 0, false, true, true;
    c17_q_anti_tuple_diff_same: 3, 3, true, false, true;
    c17_q_anti_tuple_vs_adt: 3, 0, true, true, true;
    c17_q_anti_slice_diff: 5, 5, true, false, true;
    c17_q_anti_raw_same: 6, 6, true, true, true;
    c17_t_anti_fndef_same_diff_same: 9, 9, true, false, true;
    c17_t_anti_closure_diff_id: 12, 12, false, false, false;
    c17_t_anti_assoc_same_same_diff: 1, 1, true, true, false;
    c17_t_anti_opaque_same_diff_diff: 8, 8, true, false, false;
    c17_t_anti_slice_same: 5, 5, true, true, true;
    c17_t_anti_slice_vs_raw: 5, 6, true, true, true;
    c17_q_anti_raw_const_vs_mut: 7, 6, true, true, true;
    c17_t_anti_raw_mut_vs_const_diff_pointee: 6, 7, true, false, true;
}
