//! C13 / C17 / C01 — `Solution::combine` (chalk-solve/src/solve.rs): the same result in either
//! argument order, and never a stronger claim than the candidates support.
//!
//! A class fixes the kind of each candidate (Unique / Definite / Suggested / Unknown) and the
//! shape of its substitution (identity `[^0.0]` or ground `[Foreign id]`), constraints (none /
//! one) and, for two ground candidates, whether their ids agree. All 9 x 9 ordered pairs of kinds
//! are run, one query each (two for ground/ground pairs); the binder universe is symbolic.

use chalk_ir::*;
use chalk_solve::solve::{Guidance, Solution};
use vinterner::gen::*;
use vinterner::*;

fn binders(ui: usize) -> CanonicalVarKinds<VI> {
    CanonicalVarKinds::from1(
        I,
        WithKind::new(VariableKind::Ty(TyVariableKind::General), UniverseIndex { counter: ui }),
    )
}
/// The identity substitution `[^0.0]` or the ground substitution `[Foreign(id)]`. Ids are concrete per class: `combine` depends on the candidates only through
/// equalities, so the classes (same id / different ids) are a complete case split, and reading
/// symbolic ids back out of `Solution` (a widest-variant read, DESIGN.md §2.2a) does not finish.
fn canon_subst(identity: bool, id: u64, ui: usize) -> Canonical<Substitution<VI>> {
    let t = if identity {
        ty(TyKind::BoundVar(BoundVar::new(DebruijnIndex::INNERMOST, 0)))
    } else {
        foreign(id)
    };
    Canonical { value: subst(&[ga_ty(t)]), binders: binders(ui) }
}
fn constraints(one: bool) -> Constraints<VI> {
    if one {
        let c = InEnvironment::new(
            &Environment::new(I),
            Constraint::LifetimeOutlives(lt(LifetimeData::Static), lt(LifetimeData::Erased)),
        );
        Constraints::from_iter(I, [c])
    } else {
        Constraints::empty(I)
    }
}

/// candidate kinds: 0 Unique(identity, no constraints) = "trivially true"; 1 Unique(identity, one
/// constraint); 2 Unique(ground); 3 Definite(identity); 4 Definite(ground); 5 Suggested(ground);
/// 6 Suggested(identity); 7 Unknown; 8 Unique(ground, one constraint)
pub const N_KINDS: usize = 9;
fn mk(kind: usize, id: u64, ui: usize) -> Solution<VI> {
    match kind {
        0 | 1 | 2 | 8 => {
            let cs = canon_subst(!(kind == 2 || kind == 8), id, ui);
            Solution::Unique(Canonical {
                value: ConstrainedSubst { subst: cs.value, constraints: constraints(kind == 1 || kind == 8) },
                binders: cs.binders,
            })
        }
        3 => Solution::Ambig(Guidance::Definite(canon_subst(true, id, ui))),
        4 => Solution::Ambig(Guidance::Definite(canon_subst(false, id, ui))),
        5 => Solution::Ambig(Guidance::Suggested(canon_subst(false, id, ui))),
        6 => Solution::Ambig(Guidance::Suggested(canon_subst(true, id, ui))),
        _ => Solution::Ambig(Guidance::Unknown),
    }
}

fn definite_part(s: &Solution<VI>) -> Option<Canonical<Substitution<VI>>> {
    match s {
        Solution::Unique(c) => Some(Canonical { value: c.value.subst, binders: c.binders }),
        Solution::Ambig(Guidance::Definite(c)) => Some(c.clone()),
        _ => None,
    }
}

/// `laws`: 0 = all assertions in one query; 1 = order independence only; 2 = "never claims more"
/// only (equal candidates make every deep comparison traverse both terms; the assertions are then
/// decided in two queries instead of one, which did not finish within 300 s).
fn check(ka: usize, ida: u64, kb: usize, idb: u64, laws: u8) {
    // Both candidates are canonical over the same binders. What is symbolic: for classes that are
    // decided in one query the binder universe; for the split classes (equal candidates, the
    // constrained-identity candidate) the shared id of the ground substitutions instead - with both
    // symbolic the deep comparisons do not finish.
    let same_ids = ida == idb;
    let (ui, x) = if laws == 0 { (sym::usize(), 1u64) } else { (0usize, sym::u64()) };
    let ida = if ida == 1 { x } else { x ^ 1 };
    let idb = if idb == 1 { x } else { x ^ 1 };
    let a = mk(ka, ida, ui);
    let b = mk(kb, idb, ui);
    let ab = a.clone().combine(b.clone(), I);
    if laws != 2 {
        let ba = b.clone().combine(a.clone(), I);
        assert!(ab == ba, "C13/C17: Solution::combine depends on the argument order");
    }
    if laws == 1 {
        return;
    }
    let trivial_a = a.is_trivial_and_always_true(I);
    let trivial_b = b.is_trivial_and_always_true(I);
    match &ab {
        Solution::Unique(_) => {
            // a definite answer only if it is one of the candidates and the other candidate
            // agrees with it or it is unconditionally true
            assert!(
                (ab == a && (a == b || trivial_a)) || (ab == b && trivial_b),
                "C17: combine claims Unique beyond its candidates"
            );
        }
        Solution::Ambig(Guidance::Definite(s)) => {
            assert!(
                definite_part(&a).as_ref() == Some(s) && definite_part(&b).as_ref() == Some(s),
                "C17: combine claims definite guidance that a candidate does not carry"
            );
        }
        Solution::Ambig(Guidance::Suggested(s)) => {
            let sa = matches!(&a, Solution::Ambig(Guidance::Suggested(x)) if x == s);
            let sb = matches!(&b, Solution::Ambig(Guidance::Suggested(x)) if x == s);
            assert!(sa && sb, "C17: combine suggests a substitution that a candidate does not carry");
        }
        Solution::Ambig(Guidance::Unknown) => {}
    }
    if ka == kb && same_ids {
        // idempotence: the two candidates are equal
        assert!(ab == a, "C17: combine(a, a) != a");
    }
}

fn pair(ka: usize, ida: u64, kb: usize, idb: u64, laws: u8) {
    check(ka, ida, kb, idb, laws);
    cover!(true);
}

macro_rules! pairs {
    ($($name:ident: $a:expr, $ia:expr, $b:expr, $ib:expr, $laws:expr;)*) => {$(
        vharness!($name, 6, { pair($a, $ia, $b, $ib, $laws) });
    )*};
}
include!("c13_pairs.rs");

// both outcomes of the interesting comparison are reachable
vharness!(c13_q_combine_witness, 6, {
    let ui = sym::usize();
    let same = mk(4, 1, ui).combine(mk(4, 1, ui), I);
    let diff = mk(4, 1, ui).combine(mk(4, 2, ui), I);
    assert!(matches!(same, Solution::Ambig(Guidance::Definite(_))));
    assert!(matches!(diff, Solution::Ambig(Guidance::Unknown)));
    cover!(true);
});
