//! C13 / C17 / C01 — `Solution::combine` (chalk-solve/src/solve.rs): the same result in either
//! argument order, and never a stronger claim than the candidates support.
//!
//! A class fixes the kind of each candidate (Unique / Definite / Suggested / Unknown) and the
//! shape of its substitution (identity `[^0.0]` or ground `[Foreign id]`) and constraints (none /
//! one); ids are symbolic. All 8 x 8 kind/shape pairs are run (one harness per left candidate).

use chalk_ir::*;
use chalk_solve::solve::{Guidance, Solution};
use vinterner::gen::*;
use vinterner::*;

fn binders() -> CanonicalVarKinds<VI> {
    CanonicalVarKinds::from1(
        I,
        WithKind::new(VariableKind::Ty(TyVariableKind::General), UniverseIndex::ROOT),
    )
}
fn canon_subst(identity: bool) -> Canonical<Substitution<VI>> {
    let t = if identity {
        ty(TyKind::BoundVar(BoundVar::new(DebruijnIndex::INNERMOST, 0)))
    } else {
        foreign(sym::u64())
    };
    Canonical { value: subst(&[ga_ty(t)]), binders: binders() }
}
fn constraints(one: bool) -> Constraints<VI> {
    if one {
        let c = InEnvironment::new(
            &Environment::new(I),
            Constraint::LifetimeOutlives(lt(LifetimeData::Static), lt(LifetimeData::Erased)),
        );
        Constraints::from_iter(I, [c])
    } else {
        Constraints::empty(I)
    }
}

/// candidate kinds: 0 Unique(identity, no constraints) = "trivially true"; 1 Unique(identity, one
/// constraint); 2 Unique(ground); 3 Definite(identity); 4 Definite(ground); 5 Suggested(ground);
/// 6 Suggested(identity); 7 Unknown
pub const N_KINDS: usize = 8;
fn mk(kind: usize) -> Solution<VI> {
    match kind {
        0 | 1 | 2 => {
            let cs = canon_subst(kind != 2);
            Solution::Unique(Canonical {
                value: ConstrainedSubst { subst: cs.value, constraints: constraints(kind == 1) },
                binders: cs.binders,
            })
        }
        3 => Solution::Ambig(Guidance::Definite(canon_subst(true))),
        4 => Solution::Ambig(Guidance::Definite(canon_subst(false))),
        5 => Solution::Ambig(Guidance::Suggested(canon_subst(false))),
        6 => Solution::Ambig(Guidance::Suggested(canon_subst(true))),
        _ => Solution::Ambig(Guidance::Unknown),
    }
}

fn definite_part(s: &Solution<VI>) -> Option<Canonical<Substitution<VI>>> {
    match s {
        Solution::Unique(c) => Some(Canonical { value: c.value.subst, binders: c.binders }),
        Solution::Ambig(Guidance::Definite(c)) => Some(c.clone()),
        _ => None,
    }
}

fn check(ka: usize, kb: usize) {
    let a = mk(ka);
    let b = mk(kb);
    let ab = a.clone().combine(b.clone(), I);
    let ba = b.clone().combine(a.clone(), I);
    assert!(ab == ba, "C13/C17: Solution::combine depends on the argument order");
    let trivial_a = a.is_trivial_and_always_true(I);
    let trivial_b = b.is_trivial_and_always_true(I);
    match &ab {
        Solution::Unique(_) => {
            // a definite answer only if it is one of the candidates and the other candidate
            // agrees with it or it is unconditionally true
            assert!(
                (ab == a && (a == b || trivial_a)) || (ab == b && trivial_b),
                "C17: combine claims Unique beyond its candidates"
            );
        }
        Solution::Ambig(Guidance::Definite(s)) => {
            assert!(
                definite_part(&a).as_ref() == Some(s) && definite_part(&b).as_ref() == Some(s),
                "C17: combine claims definite guidance that a candidate does not carry"
            );
        }
        Solution::Ambig(Guidance::Suggested(s)) => {
            let sa = matches!(&a, Solution::Ambig(Guidance::Suggested(x)) if x == s);
            let sb = matches!(&b, Solution::Ambig(Guidance::Suggested(x)) if x == s);
            assert!(sa && sb, "C17: combine suggests a substitution that a candidate does not carry");
        }
        Solution::Ambig(Guidance::Unknown) => {}
    }
    if ka == kb {
        // idempotence
        assert!(a.clone().combine(a.clone(), I) == a, "C17: combine(a, a) != a");
    }
}

fn pair(ka: usize, kb: usize) {
    check(ka, kb);
    cover!(true);
}

macro_rules! pairs {
    ($($name:ident: $a:expr, $b:expr;)*) => {$(
        vharness!($name, 6, { pair($a, $b) });
    )*};
}
include!("c13_pairs.rs");

// both outcomes of the interesting comparison are reachable
vharness!(c13_q_combine_witness, 6, {
    let a = mk(4);
    let b = mk(4);
    let ab = a.combine(b, I);
    cover!(matches!(ab, Solution::Ambig(Guidance::Definite(_))));
    cover!(matches!(ab, Solution::Ambig(Guidance::Unknown)));
});
