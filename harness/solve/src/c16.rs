//! C16 — "Universe compression keeps the relative order of universes and can be undone":
//! `UniverseMapExt::{add, map_universe_to_canonical, map_universe_from_canonical}`,
//! `InferenceTable::u_canonicalize` (UCollector, UMapToCanonical) and
//! `UniverseMapExt::map_from_canonical` (UMapFromCanonical) in
//! chalk-solve/src/infer/ucanonicalize.rs.

use chalk_ir::*;
use chalk_solve::infer::ucanonicalize::UniverseMapExt;
use vinterner::gen::*;
use vinterner::*;

fn u(c: usize) -> UniverseIndex {
    UniverseIndex { counter: c }
}

/// One placeholder leaf of sort `sort` (0 type, 1 lifetime, 2 const) in universe `ui`.
fn leaf(sort: usize, ui: usize, idx: usize) -> GenericArg<VI> {
    let p = PlaceholderIndex { ui: u(ui), idx };
    match sort {
        0 => ga_ty(p.to_ty(I)),
        1 => ga_lt(p.to_lifetime(I)),
        _ => ga_const(p.to_const(I, ty(TyKind::Scalar(Scalar::Uint(UintTy::Usize))))),
    }
}
fn leaf_universe(g: &GenericArg<VI>) -> usize {
    match g.data(I) {
        GenericArgData::Ty(t) => match t.kind(I) {
            TyKind::Placeholder(p) => p.ui.counter,
            _ => usize::MAX,
        },
        GenericArgData::Lifetime(l) => match l.data(I) {
            LifetimeData::Placeholder(p) => p.ui.counter,
            _ => usize::MAX,
        },
        GenericArgData::Const(c) => match &c.data(I).value {
            ConstValue::Placeholder(p) => p.ui.counter,
            _ => usize::MAX,
        },
    }
}

/// Undo direction on one placeholder leaf: a value that lives in canonical universe 1, and a
/// universe map `[root, x]` (x symbolic): `map_from_canonical` must move the leaf to universe x,
/// whatever its sort, and leave its index alone.
fn from_canonical(sort: usize) {
    let x = sym::usize();
    sym::assume(x > 0);
    let idx = sym::usize();
    let m = UniverseMap { universes: vec![u(0), u(x)] };
    let c = Canonical { value: subst(&[leaf(sort, 1, idx)]), binders: CanonicalVarKinds::empty(I) };
    let back = m.map_from_canonical(I, &c);
    let got = back.value.as_slice(I)[0];
    assert!(got == leaf(sort, x, idx), "C16: universe compression is not undone for this leaf");
    std::mem::forget(m);
    cover!(x > 1);
}

/// A sparse three-entry map `[root, x, y]` (x < y symbolic): canonical universes 1 and 2 go back to
/// x and y; canonical universes beyond the recorded range (an implicit `forall` in the answer) map
/// above every recorded universe, in order: 3 -> y + 1, 4 -> y + 2.
fn sparse_and_out_of_range(sort: usize) {
    let x = sym::usize();
    let y = sym::usize();
    sym::assume(0 < x && x < y && y < usize::MAX - 4);
    let idx = sym::usize();
    let m = UniverseMap { universes: vec![u(0), u(x), u(y)] };
    let c = Canonical {
        value: subst(&[leaf(sort, 1, idx), leaf(sort, 2, idx), leaf(sort, 3, idx), leaf(sort, 4, idx)]),
        binders: CanonicalVarKinds::empty(I),
    };
    let back = m.map_from_canonical(I, &c);
    let got = back.value.as_slice(I);
    assert!(got[0] == leaf(sort, x, idx), "C16: canonical universe 1 of a sparse map");
    assert!(got[1] == leaf(sort, y, idx), "C16: canonical universe 2 of a sparse map");
    assert!(got[2] == leaf(sort, y + 1, idx), "C16: out-of-range canonical universe must map above every recorded universe");
    assert!(got[3] == leaf(sort, y + 2, idx), "C16: out-of-range canonical universes keep their order");
    std::mem::forget(m);
    cover!(y > x + 1);
}

/// The binders of the answer carry universes too (added after seeded change R4-C16-a, which
/// capped them at the highest recorded universe): with the sparse map `[root, x, y]`, binders in
/// canonical universes 1, 2, 3, 4 go back to x, y, y + 1, y + 2 — the same universes as the
/// placeholders of those canonical universes — and keep their kinds.
fn binders_follow_the_map() {
    let x = sym::usize();
    let y = sym::usize();
    sym::assume(0 < x && x < y && y < usize::MAX - 4);
    let m = UniverseMap { universes: vec![u(0), u(x), u(y)] };
    let binders = CanonicalVarKinds::from_iter(
        I,
        [
            WithKind::new(VariableKind::Ty(TyVariableKind::General), u(1)),
            WithKind::new(VariableKind::Lifetime, u(2)),
            WithKind::new(VariableKind::Ty(TyVariableKind::Integer), u(3)),
            WithKind::new(VariableKind::Lifetime, u(4)),
        ],
    );
    let c = Canonical { value: subst(&[leaf(0, 3, 0)]), binders };
    let back = m.map_from_canonical(I, &c);
    let b = back.binders.as_slice(I);
    assert!(b.len() == 4);
    assert!(*b[0].skip_kind() == u(x), "C16: binder in canonical universe 1 of a sparse map");
    assert!(*b[1].skip_kind() == u(y), "C16: binder in canonical universe 2 of a sparse map");
    assert!(*b[2].skip_kind() == u(y + 1), "C16: binder in an out-of-range canonical universe must map above every recorded universe");
    assert!(*b[3].skip_kind() == u(y + 2), "C16: binders in out-of-range canonical universes keep their order");
    assert!(matches!(b[0].kind, VariableKind::Ty(TyVariableKind::General)) && matches!(b[1].kind, VariableKind::Lifetime));
    assert!(matches!(b[2].kind, VariableKind::Ty(TyVariableKind::Integer)) && matches!(b[3].kind, VariableKind::Lifetime));
    // binder and placeholder of the same canonical universe agree
    assert!(back.value.as_slice(I)[0] == leaf(0, y + 1, 0), "C16: binder and placeholder of one canonical universe disagree");
    std::mem::forget(m);
    cover!(y > x + 1);
}
vharness!(c16_q_binders_follow_the_map, 8, { binders_follow_the_map() });
vharness!(c16_q_sparse_ty, 8, { sparse_and_out_of_range(0) });
vharness!(c16_q_sparse_lifetime, 8, { sparse_and_out_of_range(1) });
vharness!(c16_q_sparse_const, 8, { sparse_and_out_of_range(2) });
vharness!(c16_q_from_canonical_ty, 8, { from_canonical(0) });
vharness!(c16_q_from_canonical_lifetime, 8, { from_canonical(1) });
vharness!(c16_q_from_canonical_const, 8, { from_canonical(2) });
