//! C16 — "Universe compression keeps the relative order of universes and can be undone":
//! `UniverseMapExt::{add, map_universe_to_canonical, map_universe_from_canonical}`,
//! `InferenceTable::u_canonicalize` (UCollector, UMapToCanonical) and
//! `UniverseMapExt::map_from_canonical` (UMapFromCanonical) in
//! chalk-solve/src/infer/ucanonicalize.rs.

use chalk_ir::*;
use chalk_solve::infer::ucanonicalize::UniverseMapExt;
use chalk_solve::infer::InferenceTable;
use vinterner::gen::*;
use vinterner::*;

fn u(c: usize) -> UniverseIndex {
    UniverseIndex { counter: c }
}

// the map itself: arbitrary universes added in arbitrary order
vharness!(c16_q_universe_map, 8, {
    let mut m = UniverseMap::new();
    let a = sym::usize();
    let b = sym::usize();
    let c = sym::usize();
    m.add(u(a));
    m.add(u(b));
    m.add(u(c));
    let n = m.num_canonical_universes();
    // sorted, duplicate-free, contains the root and everything added
    let mut i = 1;
    while i < n {
        assert!(m.universes[i - 1].counter < m.universes[i].counter, "C16: universe list not strictly sorted");
        i += 1;
    }
    assert!(m.universes[0].counter == 0);
    for x in [a, b, c] {
        let cx = m.map_universe_to_canonical(u(x));
        assert!(cx.is_some(), "C16: an added universe has no canonical image");
        let cx = cx.unwrap();
        assert!(cx.counter < n, "C16: canonical universes are 0..n");
        assert!(m.map_universe_from_canonical(cx) == u(x), "C16: compression cannot be undone");
        for y in [a, b, c] {
            let cy = m.map_universe_to_canonical(u(y)).unwrap();
            assert!((x < y) == (cx.counter < cy.counter), "C16: relative order of universes not kept");
        }
    }
    // a universe that was never added has no image
    let z = sym::usize();
    if z != 0 && z != a && z != b && z != c {
        assert!(m.map_universe_to_canonical(u(z)).is_none());
    }
    // canonical universes beyond the range map above every original universe, in order
    let k = sym::usize();
    sym::assume(k >= n && k < n + 4);
    let max = m.universes[n - 1].counter;
    sym::assume(max < usize::MAX - 8);
    let out = m.map_universe_from_canonical(u(k));
    assert!(out.counter > max && out.counter == max + (k - n) + 1);
    cover!(n == 4);
    cover!(n == 1);
});

/// One placeholder leaf of sort `sort` (0 type, 1 lifetime, 2 const) in universe `ui`.
fn leaf(sort: usize, ui: usize, idx: usize) -> GenericArg<VI> {
    let p = PlaceholderIndex { ui: u(ui), idx };
    match sort {
        0 => ga_ty(p.to_ty(I)),
        1 => ga_lt(p.to_lifetime(I)),
        _ => ga_const(p.to_const(I, ty(TyKind::Scalar(Scalar::Uint(UintTy::Usize))))),
    }
}
fn leaf_universe(g: &GenericArg<VI>) -> usize {
    match g.data(I) {
        GenericArgData::Ty(t) => match t.kind(I) {
            TyKind::Placeholder(p) => p.ui.counter,
            _ => usize::MAX,
        },
        GenericArgData::Lifetime(l) => match l.data(I) {
            LifetimeData::Placeholder(p) => p.ui.counter,
            _ => usize::MAX,
        },
        GenericArgData::Const(c) => match &c.data(I).value {
            ConstValue::Placeholder(p) => p.ui.counter,
            _ => usize::MAX,
        },
    }
}

/// u-canonicalise a substitution of two placeholder leaves (sorts fixed per class, universes and
/// indices symbolic), check density / order, and undo it.
fn roundtrip(s0: usize, s1: usize) {
    let (ua, ub) = (sym::usize(), sym::usize());
    sym::assume(ua > 0 && ub > 0); // placeholders live in non-root universes
    let (ia, ib) = (sym::usize(), sym::usize());
    let value = subst(&[leaf(s0, ua, ia), leaf(s1, ub, ib)]);
    let c0 = Canonical { value, binders: CanonicalVarKinds::empty(I) };
    let uc = InferenceTable::u_canonicalize(I, &c0);
    let n = uc.quantified.universes;
    assert!(n == if ua == ub { 2 } else { 3 }, "C16: number of canonical universes");
    let v1 = uc.quantified.canonical.value.as_slice(I);
    let (ca, cb) = (leaf_universe(&v1[0]), leaf_universe(&v1[1]));
    assert!(ca < n && cb < n && ca > 0 && cb > 0, "C16: canonical universes are dense");
    assert!((ua < ub) == (ca < cb) && (ua == ub) == (ca == cb), "C16: relative order of universes not kept");
    let back = uc.universes.map_from_canonical(I, &uc.quantified.canonical);
    assert!(back.value == c0.value, "C16: universe compression cannot be undone");
    cover!(ua < ub);
    cover!(ua > ub);
    cover!(ua == ub);
}

vharness!(c16_q_roundtrip_ty_ty, 8, { roundtrip(0, 0) });
vharness!(c16_q_roundtrip_ty_lt, 8, { roundtrip(0, 1) });
vharness!(c16_q_roundtrip_lt_lt, 8, { roundtrip(1, 1) });
vharness!(c16_q_roundtrip_const_ty, 8, { roundtrip(2, 0) });
vharness!(c16_t_roundtrip_const_const, 8, { roundtrip(2, 2) });
vharness!(c16_t_roundtrip_lt_const, 8, { roundtrip(1, 2) });
