//! Foldability probes for `Solution` / `Guidance` (see harness/ir/src/fold_probe.rs).
use chalk_ir::*;
use chalk_solve::solve::{Guidance, Solution};
use vinterner::*;

fn cs() -> Canonical<Substitution<VI>> {
    Canonical {
        value: subst(&[ga_ty(foreign(1))]),
        binders: CanonicalVarKinds::from1(I, WithKind::new(VariableKind::Ty(TyVariableKind::General), UniverseIndex::ROOT)),
    }
}
fn count(s: &Substitution<VI>) -> usize {
    let mut n = 0;
    for _ in s.iter(I) {
        n += 1;
    }
    n
}
vharness!(fp_sol_unique, 6, {
    let c = cs();
    let s = Solution::Unique(Canonical { value: ConstrainedSubst { subst: c.value, constraints: Constraints::empty(I) }, binders: c.binders });
    if let Solution::Unique(u) = &s { assert!(count(&u.value.subst) == 1); }
});
vharness!(fp_sol_definite, 6, {
    let s: Solution<VI> = Solution::Ambig(Guidance::Definite(cs()));
    if let Solution::Ambig(Guidance::Definite(u)) = &s { assert!(count(&u.value) == 1); }
});
vharness!(fp_guid_definite, 6, {
    let g: Guidance<VI> = Guidance::Definite(cs());
    if let Guidance::Definite(u) = &g { assert!(count(&u.value) == 1); }
});
vharness!(fp_sol_eq_same, 6, {
    let a: Solution<VI> = Solution::Ambig(Guidance::Definite(cs()));
    let b: Solution<VI> = Solution::Ambig(Guidance::Definite(cs()));
    assert!(a == b);
});
vharness!(fp_canon_eq_same, 6, {
    let a = cs();
    let b = cs();
    assert!(a == b);
});
fn dg() -> Solution<VI> { Solution::Ambig(Guidance::Definite(cs())) }
vharness!(fp_comb_same_result, 6, {
    let a = dg();
    let b = dg();
    let ab = a.clone().combine(b, I);
    assert!(ab == a);
});
vharness!(fp_comb_same_comm, 6, {
    let a = dg();
    let b = dg();
    let ab = a.clone().combine(b.clone(), I);
    let ba = b.combine(a, I);
    assert!(ab == ba);
});
vharness!(fp_comb_same_kind, 6, {
    let a = dg();
    let b = dg();
    let ab = a.clone().combine(b.clone(), I);
    assert!(matches!(ab, Solution::Ambig(Guidance::Definite(_))));
});
