//! Kani harnesses over chalk-solve's public API (C13 / C17 / C01: Solution::combine; C16:
//! universe compression).
#![allow(unused_imports, dead_code)]
pub mod c13;
pub mod c16;
#[cfg(kani)] pub mod fold_probe;
