// @generated: ordered pairs of the 9 candidate kinds (see c13.rs).
//  * `_sound`: classes whose two candidates are EQUAL or carry equal substitutions are decided with
//    the "never claims more" + idempotence assertions only (laws = 2, shared symbolic id): the
//    order-independence assertion compares combine(a,b) with combine(b,a) by deep equality of equal
//    terms and does not finish within 300 s; for equal candidates `combine` returns its first
//    argument, so order independence there is the idempotence that IS asserted (`ab == a`).
//  * also left out: the three equal-substitution classes with a constrained ground Unique candidate
//    (ugrnd_ugrndc_same, ugrndc_ugrnd_same, ugrndc_ugrndc_same): deep equality of the constraint lists.
//  * left out altogether (do not finish within 300 s in any split): the pairs with the
//    constrained-identity Unique candidate, except utriv_ucons: dgrnd_ucons, didnt_ucons, sgrnd_ucons, sidnt_ucons, ucons_dgrnd, ucons_didnt, ucons_sgrnd, ucons_sidnt, ucons_ucons, ucons_ugrnd, ucons_ugrndc, ucons_unkn, ucons_utriv, ugrnd_ucons, ugrndc_ucons, unkn_ucons
pairs! {
    c13_q_combine_utriv_utriv: 0, 1, 0, 2, 0;
    c13_q_combine_utriv_ucons: 0, 1, 1, 2, 0;
    c13_q_combine_utriv_ugrnd: 0, 1, 2, 2, 0;
    c13_t_combine_utriv_didnt: 0, 1, 3, 2, 0;
    c13_q_combine_utriv_dgrnd: 0, 1, 4, 2, 0;
    c13_t_combine_utriv_sgrnd: 0, 1, 5, 2, 0;
    c13_t_combine_utriv_sidnt: 0, 1, 6, 2, 0;
    c13_q_combine_utriv_unkn: 0, 1, 7, 2, 0;
    c13_t_combine_utriv_ugrndc: 0, 1, 8, 2, 0;
    c13_t_combine_ugrnd_utriv: 2, 1, 0, 2, 0;
    c13_q_combine_ugrnd_ugrnd_same_sound: 2, 1, 2, 1, 2;
    c13_q_combine_ugrnd_ugrnd_diff: 2, 1, 2, 2, 0;
    c13_t_combine_ugrnd_didnt: 2, 1, 3, 2, 0;
    c13_q_combine_ugrnd_dgrnd_same_sound: 2, 1, 4, 1, 2;
    c13_q_combine_ugrnd_dgrnd_diff: 2, 1, 4, 2, 0;
    c13_q_combine_ugrnd_sgrnd_same: 2, 1, 5, 1, 0;
    c13_q_combine_ugrnd_sgrnd_diff: 2, 1, 5, 2, 0;
    c13_t_combine_ugrnd_sidnt: 2, 1, 6, 2, 0;
    c13_t_combine_ugrnd_unkn: 2, 1, 7, 2, 0;
    c13_q_combine_ugrnd_ugrndc_diff: 2, 1, 8, 2, 0;
    c13_t_combine_didnt_utriv: 3, 1, 0, 2, 0;
    c13_t_combine_didnt_ugrnd: 3, 1, 2, 2, 0;
    c13_t_combine_didnt_didnt_sound: 3, 1, 3, 2, 2;
    c13_q_combine_didnt_dgrnd: 3, 1, 4, 2, 0;
    c13_t_combine_didnt_sgrnd: 3, 1, 5, 2, 0;
    c13_q_combine_didnt_sidnt: 3, 1, 6, 2, 0;
    c13_t_combine_didnt_unkn: 3, 1, 7, 2, 0;
    c13_t_combine_didnt_ugrndc: 3, 1, 8, 2, 0;
    c13_t_combine_dgrnd_utriv: 4, 1, 0, 2, 0;
    c13_t_combine_dgrnd_ugrnd_same_sound: 4, 1, 2, 1, 2;
    c13_t_combine_dgrnd_ugrnd_diff: 4, 1, 2, 2, 0;
    c13_t_combine_dgrnd_didnt: 4, 1, 3, 2, 0;
    c13_q_combine_dgrnd_dgrnd_same_sound: 4, 1, 4, 1, 2;
    c13_q_combine_dgrnd_dgrnd_diff: 4, 1, 4, 2, 0;
    c13_q_combine_dgrnd_sgrnd_same: 4, 1, 5, 1, 0;
    c13_q_combine_dgrnd_sgrnd_diff: 4, 1, 5, 2, 0;
    c13_t_combine_dgrnd_sidnt: 4, 1, 6, 2, 0;
    c13_t_combine_dgrnd_unkn: 4, 1, 7, 2, 0;
    c13_t_combine_dgrnd_ugrndc_same_sound: 4, 1, 8, 1, 2;
    c13_t_combine_dgrnd_ugrndc_diff: 4, 1, 8, 2, 0;
    c13_t_combine_sgrnd_utriv: 5, 1, 0, 2, 0;
    c13_q_combine_sgrnd_ugrnd_same: 5, 1, 2, 1, 0;
    c13_q_combine_sgrnd_ugrnd_diff: 5, 1, 2, 2, 0;
    c13_t_combine_sgrnd_didnt: 5, 1, 3, 2, 0;
    c13_q_combine_sgrnd_dgrnd_same: 5, 1, 4, 1, 0;
    c13_q_combine_sgrnd_dgrnd_diff: 5, 1, 4, 2, 0;
    c13_q_combine_sgrnd_sgrnd_same_sound: 5, 1, 5, 1, 2;
    c13_q_combine_sgrnd_sgrnd_diff: 5, 1, 5, 2, 0;
    c13_t_combine_sgrnd_sidnt: 5, 1, 6, 2, 0;
    c13_q_combine_sgrnd_unkn: 5, 1, 7, 2, 0;
    c13_t_combine_sgrnd_ugrndc_same: 5, 1, 8, 1, 0;
    c13_t_combine_sgrnd_ugrndc_diff: 5, 1, 8, 2, 0;
    c13_t_combine_sidnt_utriv: 6, 1, 0, 2, 0;
    c13_t_combine_sidnt_ugrnd: 6, 1, 2, 2, 0;
    c13_t_combine_sidnt_didnt: 6, 1, 3, 2, 0;
    c13_t_combine_sidnt_dgrnd: 6, 1, 4, 2, 0;
    c13_q_combine_sidnt_sgrnd: 6, 1, 5, 2, 0;
    c13_t_combine_sidnt_sidnt_sound: 6, 1, 6, 2, 2;
    c13_t_combine_sidnt_unkn: 6, 1, 7, 2, 0;
    c13_t_combine_sidnt_ugrndc: 6, 1, 8, 2, 0;
    c13_t_combine_unkn_utriv: 7, 1, 0, 2, 0;
    c13_t_combine_unkn_ugrnd: 7, 1, 2, 2, 0;
    c13_t_combine_unkn_didnt: 7, 1, 3, 2, 0;
    c13_t_combine_unkn_dgrnd: 7, 1, 4, 2, 0;
    c13_t_combine_unkn_sgrnd: 7, 1, 5, 2, 0;
    c13_t_combine_unkn_sidnt: 7, 1, 6, 2, 0;
    c13_q_combine_unkn_unkn: 7, 1, 7, 2, 0;
    c13_t_combine_unkn_ugrndc: 7, 1, 8, 2, 0;
    c13_t_combine_ugrndc_utriv: 8, 1, 0, 2, 0;
    c13_q_combine_ugrndc_ugrnd_diff: 8, 1, 2, 2, 0;
    c13_t_combine_ugrndc_didnt: 8, 1, 3, 2, 0;
    c13_q_combine_ugrndc_dgrnd_same_sound: 8, 1, 4, 1, 2;
    c13_q_combine_ugrndc_dgrnd_diff: 8, 1, 4, 2, 0;
    c13_t_combine_ugrndc_sgrnd_same: 8, 1, 5, 1, 0;
    c13_t_combine_ugrndc_sgrnd_diff: 8, 1, 5, 2, 0;
    c13_t_combine_ugrndc_sidnt: 8, 1, 6, 2, 0;
    c13_t_combine_ugrndc_unkn: 8, 1, 7, 2, 0;
    c13_q_combine_ugrndc_ugrndc_diff: 8, 1, 8, 2, 0;
}
