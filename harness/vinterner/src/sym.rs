//! Symbolic inputs. Under Kani every value is `kani::any()`; natively (replay of a solver
//! counterexample, oracle validation) the values are popped from a recorded vector of
//! little-endian byte strings — the format Kani's concrete playback prints — read from the file
//! named by `VERIF_REPLAY`. All harness inputs are drawn through the primitives below so that the
//! order of draws is identical in both worlds.

#[cfg(not(kani))]
mod native {
    use std::cell::RefCell;
    thread_local! {
        pub static VALS: RefCell<Option<(Vec<Vec<u8>>, usize)>> = RefCell::new(None);
    }

    /// Load the replay vector. Returns false when `VERIF_REPLAY` is unset (nothing to replay).
    pub fn load() -> bool {
        let path = match std::env::var("VERIF_REPLAY") {
            Ok(p) => p,
            Err(_) => return false,
        };
        let text = std::fs::read_to_string(&path).expect("VERIF_REPLAY unreadable");
        // format: one value per line, bytes as decimal numbers separated by spaces; '#' comments
        let mut vals = Vec::new();
        for line in text.lines() {
            let line = line.trim();
            if line.is_empty() || line.starts_with('#') {
                continue;
            }
            vals.push(
                line.split_whitespace()
                    .map(|b| b.parse::<u8>().expect("bad byte in replay file"))
                    .collect(),
            );
        }
        VALS.with(|v| *v.borrow_mut() = Some((vals, 0)));
        true
    }

    pub fn next(n: usize) -> [u8; 16] {
        VALS.with(|v| {
            let mut g = v.borrow_mut();
            let (vals, pos) = g.as_mut().expect("replay vector not loaded");
            let mut out = [0u8; 16];
            // Kani omits trailing draws the solver left unconstrained: default 0
            if *pos < vals.len() {
                let b = &vals[*pos];
                assert_eq!(b.len(), n, "replay value {} has wrong width", *pos);
                out[..n].copy_from_slice(b);
            }
            *pos += 1;
            out
        })
    }
}

/// Native only: start a replay; `false` means the harness should return at once (no input).
#[cfg(not(kani))]
pub fn replay_begin() -> bool {
    native::load()
}
#[cfg(kani)]
pub fn replay_begin() -> bool {
    true
}

macro_rules! prim {
    ($f:ident, $t:ty, $n:expr) => {
        #[cfg(kani)]
        #[inline]
        pub fn $f() -> $t {
            kani::any()
        }
        #[cfg(not(kani))]
        pub fn $f() -> $t {
            let b = native::next($n);
            let mut a = [0u8; $n];
            a.copy_from_slice(&b[..$n]);
            <$t>::from_le_bytes(a)
        }
    };
}
prim!(u8, u8, 1);
prim!(u16, u16, 2);
prim!(u32, u32, 4);
prim!(u64, u64, 8);
prim!(usize, usize, 8);

#[cfg(kani)]
#[inline]
pub fn bool() -> bool {
    kani::any()
}
#[cfg(not(kani))]
pub fn bool() -> bool {
    native::next(1)[0] != 0
}

/// `kani::assume`; natively a replayed counterexample must satisfy every assumption.
#[cfg(kani)]
#[inline]
pub fn assume(c: bool) {
    kani::assume(c)
}
#[cfg(not(kani))]
pub fn assume(c: bool) {
    assert!(c, "VERIF-REPLAY: assumption violated by the replayed input (encoding bug)");
}

/// A value in `0..n` (n small).
pub fn below(n: u8) -> u8 {
    let v = u8();
    assume(v < n);
    v
}

#[macro_export]
macro_rules! cover {
    ($($t:tt)*) => {{
        #[cfg(kani)]
        kani::cover!($($t)*);
    }};
}
