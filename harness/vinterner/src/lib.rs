//! `VInterner` — the concrete `chalk_ir::interner::Interner` instantiation under which the
//! Kani harnesses in /verif exercise the real chalk code (DESIGN.md §2.2).
//!
//! Shapes are those of `chalk_integration::interner::ChalkIr` (flags computed by the real
//! `TyKind::compute_flags` at intern time, `u32` ids, lifetimes inline), but all interned data
//! lives in **statically allocated, typed arenas** and every interned thing is a `Copy`
//! `&'static` reference with structural equality:
//!
//! * CBMC treats objects returned by `__rust_alloc` as untyped byte arrays; enum discriminants
//!   read back from them are not constant-propagated and every `match` then explores all arms
//!   (measured: one `could_match` step DNF at 10 min with `Box::leak`, 2.2 s with the arena);
//! * with every interned representation `Copy`, `TyKind<VInterner>` & co. are `Copy` as well and
//!   no drop glue is generated for terms.
//!
//! Under `cfg(not(kani))` (native oracle validation, replay of counterexamples) the arenas are
//! replaced by leaked boxes so that many cases can run in one process.
#![allow(static_mut_refs)]

pub mod gen;
pub mod sym;

use chalk_ir::interner::{HasInterner, Interner};
use chalk_ir::*;
use std::fmt;
use std::hash::{Hash, Hasher};

/// The interner. A unit struct, like `ChalkIr`.
#[derive(Debug, Copy, Clone, Hash, PartialOrd, Ord, PartialEq, Eq)]
pub struct VInterner;

pub type VI = VInterner;

impl HasInterner for VInterner {
    type Interner = VInterner;
}

/// Interned reference: `&'static T` with *structural* equality (pointer equality is only a
/// fast path), so that two separately built equal terms compare equal exactly as with `ChalkIr`.
pub struct R<T: 'static>(pub &'static T);

impl<T> Clone for R<T> {
    #[inline]
    fn clone(&self) -> Self {
        R(self.0)
    }
}
impl<T> Copy for R<T> {}
impl<T: PartialEq> PartialEq for R<T> {
    #[inline]
    fn eq(&self, other: &Self) -> bool {
        std::ptr::eq(self.0, other.0) || *self.0 == *other.0
    }
}
impl<T: Eq> Eq for R<T> {}
impl<T: Hash> Hash for R<T> {
    fn hash<H: Hasher>(&self, state: &mut H) {
        (*self.0).hash(state)
    }
}
impl<T: fmt::Debug> fmt::Debug for R<T> {
    fn fmt(&self, f: &mut fmt::Formatter<'_>) -> fmt::Result {
        (*self.0).fmt(f)
    }
}
impl<T: PartialOrd> PartialOrd for R<T> {
    fn partial_cmp(&self, other: &Self) -> Option<std::cmp::Ordering> {
        (*self.0).partial_cmp(&*other.0)
    }
}
impl<T: Ord> Ord for R<T> {
    fn cmp(&self, other: &Self) -> std::cmp::Ordering {
        (*self.0).cmp(&*other.0)
    }
}

/// Interned list: `&'static [T]`, structural equality.
pub struct L<T: 'static>(pub &'static [T]);

impl<T> Clone for L<T> {
    #[inline]
    fn clone(&self) -> Self {
        L(self.0)
    }
}
impl<T> Copy for L<T> {}
impl<T: PartialEq> PartialEq for L<T> {
    #[inline]
    fn eq(&self, other: &Self) -> bool {
        // element-wise with an explicit index loop (bounded by the list length, which is
        // concrete in every harness) rather than the slice memcmp specialisations
        if self.0.len() != other.0.len() {
            return false;
        }
        let mut i = 0;
        while i < self.0.len() {
            if self.0[i] != other.0[i] {
                return false;
            }
            i += 1;
        }
        true
    }
}
impl<T: Eq> Eq for L<T> {}
impl<T: Hash> Hash for L<T> {
    fn hash<H: Hasher>(&self, state: &mut H) {
        self.0.hash(state)
    }
}
impl<T: fmt::Debug> fmt::Debug for L<T> {
    fn fmt(&self, f: &mut fmt::Formatter<'_>) -> fmt::Result {
        self.0.fmt(f)
    }
}
impl<T: PartialOrd> PartialOrd for L<T> {
    fn partial_cmp(&self, other: &Self) -> Option<std::cmp::Ordering> {
        self.0.partial_cmp(other.0)
    }
}
impl<T: Ord> Ord for L<T> {
    fn cmp(&self, other: &Self) -> std::cmp::Ordering {
        self.0.cmp(other.0)
    }
}

/// Thin interned list: a reference to a header holding the slice. Used for the lists that sit
/// inside `Binders` / `DynTy`, to keep those payloads small (see DESIGN.md, probe notes: a
/// `TyKind::Dyn` payload of two fat pointers plus a thin one is not constant-propagated by CBMC).
pub struct TL<T: 'static>(pub &'static Hdr<T>);
pub struct Hdr<T: 'static> {
    pub s: &'static [T],
}
impl<T> Clone for Hdr<T> {
    fn clone(&self) -> Self {
        Hdr { s: self.s }
    }
}
impl<T> Copy for Hdr<T> {}
impl<T> Clone for TL<T> {
    #[inline]
    fn clone(&self) -> Self {
        TL(self.0)
    }
}
impl<T> Copy for TL<T> {}
impl<T: PartialEq> PartialEq for TL<T> {
    #[inline]
    fn eq(&self, other: &Self) -> bool {
        L(self.0.s) == L(other.0.s)
    }
}
impl<T: Eq> Eq for TL<T> {}
impl<T: Hash> Hash for TL<T> {
    fn hash<H: Hasher>(&self, state: &mut H) {
        self.0.s.hash(state)
    }
}
impl<T: fmt::Debug> fmt::Debug for TL<T> {
    fn fmt(&self, f: &mut fmt::Formatter<'_>) -> fmt::Result {
        self.0.s.fmt(f)
    }
}
impl<T: PartialOrd> PartialOrd for TL<T> {
    fn partial_cmp(&self, other: &Self) -> Option<std::cmp::Ordering> {
        self.0.s.partial_cmp(other.0.s)
    }
}
impl<T: Ord> Ord for TL<T> {
    fn cmp(&self, other: &Self) -> std::cmp::Ordering {
        self.0.s.cmp(other.0.s)
    }
}

// ---------------------------------------------------------------------------------------------
// Layout engineering (DESIGN.md §2.2a). Kani constructs an enum value by assigning the variant's
// struct — *including nondeterministic padding fields* — to a member of a union; for some
// variants (measured: the widest member when it carries padding; variants nesting a
// niche-encoded enum such as `DomainGoal::Holds(WhereClause)`) CBMC then no longer
// constant-propagates what is read back out of the variant: pointers, list lengths and nested
// discriminants become opaque to symbolic execution and control flow depending on them explodes.
// The values stay exact in the formula — verdicts remain sound — but the queries do not finish.
// The layout chosen here was found with the foldability probes in harness/ir/src/fold_probe.rs:
//   * ids are 8 bytes (`VDefId(u64)`): `TraitRef`, `ProjectionTy`, `OpaqueTy` have no padding;
//   * the ADT id carries five filler words and the ABI type is 6 bytes (`FnSig` = 8 bytes, no
//     padding in `FnPointer`): with this, `Adt`, `Function`, `Alias`, `Dyn` all fold;
//   * variable-kind and where-clause lists are thin pointers (`TL`), clause lists carry filler
//     (`BigL`) so that `GoalData::Implies`, not `GoalData::DomainGoal`, is the widest goal variant;
//   * lifetimes are interned by reference (a by-value `LifetimeData` inside `GenericArgData`
//     shares the outer enum's tag).
// Still opaque: everything read through `DomainGoal::Holds(..)`.
// ---------------------------------------------------------------------------------------------

/// Function ABI (two values, as in `ChalkIr`), with filler bytes (see above).
#[derive(Copy, Clone, Debug)]
pub struct VAbi(pub [u8; ABI_BYTES]);
impl PartialEq for VAbi {
    #[inline]
    fn eq(&self, o: &Self) -> bool {
        self.0[0] == o.0[0]
    }
}
impl Eq for VAbi {}
impl Hash for VAbi {
    fn hash<H: Hasher>(&self, state: &mut H) {
        self.0[0].hash(state)
    }
}
pub const ABI_BYTES: usize = 6;
impl VAbi {
    pub const RUST: VAbi = VAbi([0; ABI_BYTES]);
    pub const C: VAbi = {
        let mut b = [0; ABI_BYTES];
        b[0] = 1;
        VAbi(b)
    };
}

/// ADT id: the id proper plus five filler words (see above). Equality, order and hash look at
/// the id only (a derived `==` on the filler array is a 40-iteration `memcmp`).
#[derive(Copy, Clone, Debug)]
pub struct VAdtId(pub u64, pub [u64; 5]);
impl PartialEq for VAdtId {
    #[inline]
    fn eq(&self, o: &Self) -> bool {
        self.0 == o.0
    }
}
impl Eq for VAdtId {}
impl Hash for VAdtId {
    fn hash<H: Hasher>(&self, state: &mut H) {
        self.0.hash(state)
    }
}
impl PartialOrd for VAdtId {
    fn partial_cmp(&self, o: &Self) -> Option<std::cmp::Ordering> {
        self.0.partial_cmp(&o.0)
    }
}
impl Ord for VAdtId {
    fn cmp(&self, o: &Self) -> std::cmp::Ordering {
        self.0.cmp(&o.0)
    }
}
pub fn adt_id(x: u64) -> AdtId<VI> {
    AdtId(VAdtId(x, [0; 5]))
}

/// Definition id (traits, associated types, fn defs, ...): 8 bytes, so that `TraitRef`,
/// `ProjectionTy`, `OpaqueTy` have no padding.
#[derive(Copy, Clone, PartialEq, Eq, Hash, Debug, PartialOrd, Ord)]
pub struct VDefId(pub u64);
pub fn did(x: u64) -> VDefId {
    VDefId(x)
}

/// Interned list with filler words (used for program-clause lists only).
pub struct BigL<T: 'static>(pub &'static [T], pub [u64; 6]);
impl<T> Clone for BigL<T> {
    #[inline]
    fn clone(&self) -> Self {
        BigL(self.0, self.1)
    }
}
impl<T> Copy for BigL<T> {}
impl<T: PartialEq> PartialEq for BigL<T> {
    #[inline]
    fn eq(&self, other: &Self) -> bool {
        L(self.0) == L(other.0)
    }
}
impl<T: Eq> Eq for BigL<T> {}
impl<T: Hash> Hash for BigL<T> {
    fn hash<H: Hasher>(&self, state: &mut H) {
        self.0.hash(state)
    }
}
impl<T: fmt::Debug> fmt::Debug for BigL<T> {
    fn fmt(&self, f: &mut fmt::Formatter<'_>) -> fmt::Result {
        self.0.fmt(f)
    }
}
impl<T: PartialOrd> PartialOrd for BigL<T> {
    fn partial_cmp(&self, other: &Self) -> Option<std::cmp::Ordering> {
        self.0.partial_cmp(other.0)
    }
}
impl<T: Ord> Ord for BigL<T> {
    fn cmp(&self, other: &Self) -> std::cmp::Ordering {
        self.0.cmp(other.0)
    }
}

// ---------------------------------------------------------------------------------------------
// arenas
// ---------------------------------------------------------------------------------------------

/// Longest list any harness interns.
pub const MAX_LIST: usize = 6;

#[cfg(kani)]
pub mod arena {
    use super::*;

    macro_rules! data_arena {
        ($arena:ident, $next:ident, $f:ident, $t:ty, $n:expr) => {
            static mut $arena: [Option<$t>; $n] = [const { None }; $n];
            static mut $next: usize = 0;
            #[inline]
            pub fn $f(x: $t) -> &'static $t {
                unsafe {
                    let i = $next;
                    assert!(i < $n, "vinterner: data arena exhausted");
                    $next = i + 1;
                    $arena[i] = Some(x);
                    match &$arena[i] {
                        Some(r) => r,
                        None => unreachable!(),
                    }
                }
            }
        };
    }

    /// Forget everything interned so far (previously returned references must not be used
    /// any more). Lets one harness run several independent cases within the arena capacity.
    pub fn reset() {
        unsafe {
            TY_NEXT = 0;
            CONST_NEXT = 0;
            LT_NEXT = 0;
            GA_NEXT = 0;
            GOAL_NEXT = 0;
            PC_NEXT = 0;
            VKH_NEXT = 0;
            QWCH_NEXT = 0;
            SUBST_NEXT = 0;
            GOALS_NEXT = 0;
            PCS_NEXT = 0;
            QWC_NEXT = 0;
            VK_NEXT = 0;
            CVK_NEXT = 0;
            CONSTRAINTS_NEXT = 0;
            VARIANCES_NEXT = 0;
        }
    }

    data_arena!(TY_ARENA, TY_NEXT, ty, TyData<VI>, 64);
    data_arena!(CONST_ARENA, CONST_NEXT, konst, ConstData<VI>, 24);
    data_arena!(LT_ARENA, LT_NEXT, lifetime_raw, LifetimeData<VI>, 56);
    /// Slot 0 of the lifetime arena always holds a data-carrying variant: when the first lifetime
    /// written to the array is `'static` / erased / error, CBMC can read later slots back as
    /// nondeterministic (failing traces that pass natively; DESIGN.md B17, B19).
    #[inline]
    pub fn lifetime(x: LifetimeData<VI>) -> &'static LifetimeData<VI> {
        if unsafe { LT_NEXT } == 0 {
            lifetime_raw(LifetimeData::Placeholder(PlaceholderIndex { ui: UniverseIndex::ROOT, idx: 0 }));
        }
        lifetime_raw(x)
    }
    pub fn lt_slot(i: usize) -> Option<&'static LifetimeData<VI>> {
        unsafe { LT_ARENA[i].as_ref() }
    }
    pub fn lt_next() -> usize {
        unsafe { LT_NEXT }
    }
    data_arena!(GA_ARENA, GA_NEXT, generic_arg, GenericArgData<VI>, 64);
    data_arena!(GOAL_ARENA, GOAL_NEXT, goal, GoalData<VI>, 40);
    data_arena!(PC_ARENA, PC_NEXT, program_clause, ProgramClauseData<VI>, 12);
    data_arena!(VKH_ARENA, VKH_NEXT, vk_hdr, Hdr<VariableKind<VI>>, 24);
    data_arena!(QWCH_ARENA, QWCH_NEXT, qwc_hdr, Hdr<QuantifiedWhereClause<VI>>, 12);

    // Lists live in *typed* static arrays (a `MaybeUninit` arena is a union for CBMC and
    // pointers read back from it are not constant-propagated). The array is created on first
    // use from a dummy element built at run time through chalk-ir's public constructors — a
    // `const` dummy would need transmutes (private fields), and a static initialised from such a
    // constant reaches CBMC as a byte blob, which defeats field sensitivity again.
    macro_rules! list_arena {
        ($arena:ident, $next:ident, $f:ident, $t:ty, $n:expr) => {
            static mut $arena: Option<[$t; $n]> = None;
            static mut $next: usize = 0;
            pub fn $f<E>(it: impl IntoIterator<Item = Result<$t, E>>) -> Result<&'static [$t], E> {
                // nested interning may happen while the iterator runs, so collect first
                let mut tmp: [Option<$t>; MAX_LIST] = [None; MAX_LIST];
                let mut n = 0;
                for x in it {
                    let x = x?;
                    assert!(n < MAX_LIST, "vinterner: list longer than MAX_LIST");
                    tmp[n] = Some(x);
                    n += 1;
                }
                if n == 0 {
                    return Ok(&[]);
                }
                unsafe {
                    if $arena.is_none() {
                        // filler = the first element ever interned (never read as such)
                        $arena = Some([tmp[0].unwrap(); $n]);
                    }
                    let arr: &'static mut [$t; $n] = match &mut $arena {
                        Some(a) => a,
                        None => unreachable!(),
                    };
                    let start = $next;
                    assert!(start + n <= $n, "vinterner: list arena exhausted");
                    let mut i = 0;
                    while i < n {
                        arr[start + i] = tmp[i].unwrap();
                        i += 1;
                    }
                    $next = start + n;
                    Ok(&arr[start..start + n])
                }
            }
        };
    }

    list_arena!(SUBST_ARENA, SUBST_NEXT, substitution, GenericArg<VI>, 64);
    list_arena!(GOALS_ARENA, GOALS_NEXT, goals, Goal<VI>, 32);
    list_arena!(PCS_ARENA, PCS_NEXT, program_clauses, ProgramClause<VI>, 16);
    list_arena!(QWC_ARENA, QWC_NEXT, qwcs, QuantifiedWhereClause<VI>, 12);
    list_arena!(VK_ARENA, VK_NEXT, variable_kinds, VariableKind<VI>, 32);
    list_arena!(CVK_ARENA, CVK_NEXT, canonical_var_kinds, CanonicalVarKind<VI>, 16);
    list_arena!(CONSTRAINTS_ARENA, CONSTRAINTS_NEXT, constraints, InEnvironment<Constraint<VI>>, 8);
    list_arena!(VARIANCES_ARENA, VARIANCES_NEXT, variances, Variance, 16);
}

#[cfg(not(kani))]
mod arena {
    use super::*;

    macro_rules! data_arena {
        ($f:ident, $t:ty) => {
            #[inline]
            pub fn $f(x: $t) -> &'static $t {
                Box::leak(Box::new(x))
            }
        };
    }
    pub fn reset() {}
    data_arena!(ty, TyData<VI>);
    data_arena!(konst, ConstData<VI>);
    data_arena!(lifetime, LifetimeData<VI>);
    data_arena!(generic_arg, GenericArgData<VI>);
    data_arena!(goal, GoalData<VI>);
    data_arena!(program_clause, ProgramClauseData<VI>);
    data_arena!(vk_hdr, Hdr<VariableKind<VI>>);
    data_arena!(qwc_hdr, Hdr<QuantifiedWhereClause<VI>>);

    macro_rules! list_arena {
        ($f:ident, $t:ty) => {
            pub fn $f<E>(it: impl IntoIterator<Item = Result<$t, E>>) -> Result<&'static [$t], E> {
                let v: Vec<$t> = it.into_iter().collect::<Result<_, E>>()?;
                Ok(Vec::leak(v))
            }
        };
    }
    list_arena!(substitution, GenericArg<VI>);
    list_arena!(goals, Goal<VI>);
    list_arena!(program_clauses, ProgramClause<VI>);
    list_arena!(qwcs, QuantifiedWhereClause<VI>);
    list_arena!(variable_kinds, VariableKind<VI>);
    list_arena!(canonical_var_kinds, CanonicalVarKind<VI>);
    list_arena!(constraints, InEnvironment<Constraint<VI>>);
    list_arena!(variances, Variance);
}

impl VInterner {
    /// Intern a type whose flag word is *given* rather than computed: the opaque leaves of the
    /// step harnesses (C26) carry an arbitrary symbolic flag word — the induction hypothesis.
    pub fn intern_ty_with_flags(self, kind: TyKind<VI>, flags: TypeFlags) -> Ty<VI> {
        let r = R(arena::ty(TyData { kind, flags }));
        // `Ty` has a private field; `Ty<VI>` is a newtype around `R<TyData<VI>>`.
        // Safety: single-field struct around a `Copy` pointer newtype; checked by a unit test.
        unsafe { std::mem::transmute::<R<TyData<VI>>, Ty<VI>>(r) }
    }
}

impl Interner for VInterner {
    type InternedType = R<TyData<VI>>;
    type InternedLifetime = R<LifetimeData<VI>>;
    type InternedConst = R<ConstData<VI>>;
    type InternedConcreteConst = u64;
    type InternedGenericArg = R<GenericArgData<VI>>;
    type InternedGoal = R<GoalData<VI>>;
    type InternedGoals = L<Goal<VI>>;
    type InternedSubstitution = L<GenericArg<VI>>;
    type InternedProgramClause = R<ProgramClauseData<VI>>;
    type InternedProgramClauses = BigL<ProgramClause<VI>>;
    type InternedQuantifiedWhereClauses = TL<QuantifiedWhereClause<VI>>;
    type InternedVariableKinds = TL<VariableKind<VI>>;
    type InternedCanonicalVarKinds = L<CanonicalVarKind<VI>>;
    type InternedConstraints = L<InEnvironment<Constraint<VI>>>;
    type InternedVariances = L<Variance>;
    type DefId = VDefId;
    type InternedAdtId = VAdtId;
    type Identifier = u64;
    type FnAbi = VAbi;

    fn intern_ty(self, kind: TyKind<VI>) -> R<TyData<VI>> {
        let flags = kind.compute_flags(self);
        R(arena::ty(TyData { kind, flags }))
    }
    fn ty_data(self, ty: &R<TyData<VI>>) -> &TyData<VI> {
        ty.0
    }

    // Lifetimes are interned by reference as well (unlike `ChalkIr`): a by-value `LifetimeData`
    // inside `GenericArgData` shares its tag with the outer enum (niche layout), so a symbolic
    // lifetime kind would make the *outer* discriminant symbolic for CBMC.
    fn intern_lifetime(self, lifetime: LifetimeData<VI>) -> R<LifetimeData<VI>> {
        R(arena::lifetime(lifetime))
    }
    fn lifetime_data(self, lifetime: &R<LifetimeData<VI>>) -> &LifetimeData<VI> {
        lifetime.0
    }

    fn intern_const(self, constant: ConstData<VI>) -> R<ConstData<VI>> {
        R(arena::konst(constant))
    }
    fn const_data(self, constant: &R<ConstData<VI>>) -> &ConstData<VI> {
        constant.0
    }
    fn const_eq(self, _ty: &R<TyData<VI>>, c1: &u64, c2: &u64) -> bool {
        c1 == c2
    }

    fn intern_generic_arg(self, data: GenericArgData<VI>) -> R<GenericArgData<VI>> {
        R(arena::generic_arg(data))
    }
    fn generic_arg_data(self, arg: &R<GenericArgData<VI>>) -> &GenericArgData<VI> {
        arg.0
    }

    fn intern_goal(self, goal: GoalData<VI>) -> R<GoalData<VI>> {
        if unsafe { obs::ON } {
            // observation point (DESIGN.md §2.2a): the goal is still a by-value local whose tags
            // CBMC constant-propagates; once it sits in the arena a `DomainGoal::Holds` is opaque
            let o = match &goal {
                GoalData::DomainGoal(DomainGoal::Holds(WhereClause::LifetimeOutlives(o))) => Some((o.a, o.b)),
                _ => None,
            };
            let r = arena::goal(goal);
            obs::record(r, o);
            return R(r);
        }
        R(arena::goal(goal))
    }
    fn goal_data(self, goal: &R<GoalData<VI>>) -> &GoalData<VI> {
        goal.0
    }

    fn intern_goals<E>(
        self,
        data: impl IntoIterator<Item = Result<Goal<VI>, E>>,
    ) -> Result<L<Goal<VI>>, E> {
        arena::goals(data).map(L)
    }
    fn goals_data(self, goals: &L<Goal<VI>>) -> &[Goal<VI>] {
        goals.0
    }

    fn intern_substitution<E>(
        self,
        data: impl IntoIterator<Item = Result<GenericArg<VI>, E>>,
    ) -> Result<L<GenericArg<VI>>, E> {
        arena::substitution(data).map(L)
    }
    fn substitution_data(self, substitution: &L<GenericArg<VI>>) -> &[GenericArg<VI>] {
        substitution.0
    }

    fn intern_program_clause(self, data: ProgramClauseData<VI>) -> R<ProgramClauseData<VI>> {
        R(arena::program_clause(data))
    }
    fn program_clause_data(self, clause: &R<ProgramClauseData<VI>>) -> &ProgramClauseData<VI> {
        clause.0
    }

    fn intern_program_clauses<E>(
        self,
        data: impl IntoIterator<Item = Result<ProgramClause<VI>, E>>,
    ) -> Result<BigL<ProgramClause<VI>>, E> {
        arena::program_clauses(data).map(|s| BigL(s, [0; 6]))
    }
    fn program_clauses_data(self, clauses: &BigL<ProgramClause<VI>>) -> &[ProgramClause<VI>] {
        clauses.0
    }

    fn intern_quantified_where_clauses<E>(
        self,
        data: impl IntoIterator<Item = Result<QuantifiedWhereClause<VI>, E>>,
    ) -> Result<TL<QuantifiedWhereClause<VI>>, E> {
        arena::qwcs(data).map(|s| TL(arena::qwc_hdr(Hdr { s })))
    }
    fn quantified_where_clauses_data(
        self,
        clauses: &TL<QuantifiedWhereClause<VI>>,
    ) -> &[QuantifiedWhereClause<VI>] {
        clauses.0.s
    }

    fn intern_generic_arg_kinds<E>(
        self,
        data: impl IntoIterator<Item = Result<VariableKind<VI>, E>>,
    ) -> Result<TL<VariableKind<VI>>, E> {
        arena::variable_kinds(data).map(|s| TL(arena::vk_hdr(Hdr { s })))
    }
    fn variable_kinds_data(self, variable_kinds: &TL<VariableKind<VI>>) -> &[VariableKind<VI>] {
        variable_kinds.0.s
    }

    fn intern_canonical_var_kinds<E>(
        self,
        data: impl IntoIterator<Item = Result<CanonicalVarKind<VI>, E>>,
    ) -> Result<L<CanonicalVarKind<VI>>, E> {
        arena::canonical_var_kinds(data).map(L)
    }
    fn canonical_var_kinds_data(
        self,
        canonical_var_kinds: &L<CanonicalVarKind<VI>>,
    ) -> &[CanonicalVarKind<VI>] {
        canonical_var_kinds.0
    }

    fn intern_constraints<E>(
        self,
        data: impl IntoIterator<Item = Result<InEnvironment<Constraint<VI>>, E>>,
    ) -> Result<L<InEnvironment<Constraint<VI>>>, E> {
        arena::constraints(data).map(L)
    }
    fn constraints_data(
        self,
        constraints: &L<InEnvironment<Constraint<VI>>>,
    ) -> &[InEnvironment<Constraint<VI>>] {
        constraints.0
    }

    fn intern_variances<E>(
        self,
        data: impl IntoIterator<Item = Result<Variance, E>>,
    ) -> Result<L<Variance>, E> {
        arena::variances(data).map(L)
    }
    fn variances_data(self, variances: &L<Variance>) -> &[Variance] {
        variances.0
    }
}

// ---------------------------------------------------------------------------------------------
// small constructors shared by the harnesses
// ---------------------------------------------------------------------------------------------

pub const I: VInterner = VInterner;

/// See `arena::reset`.
/// Log of the goals interned while `obs::ON` is set: for each one its arena slot and, when it is
/// `Holds(LifetimeOutlives { a, b })`, the two lifetimes. Harnesses that must *read* goals built
/// by chalk use this instead of matching on the interned data (reading `DomainGoal::Holds` back
/// out of the arena costs minutes per read, B17).
pub mod obs {
    use super::*;
    pub static mut ON: bool = false;
    pub static mut N: usize = 0;
    pub static mut LOG: [Option<(&'static GoalData<VI>, Option<(Lifetime<VI>, Lifetime<VI>)>)>; 4] = [None; 4];
    pub fn start() {
        unsafe {
            ON = true;
            N = 0;
        }
    }
    pub fn record(r: &'static GoalData<VI>, o: Option<(Lifetime<VI>, Lifetime<VI>)>) {
        unsafe {
            assert!(N < 4, "observation log full");
            LOG[N] = Some((r, o));
            N += 1;
        }
    }
    pub fn len() -> usize {
        unsafe { N }
    }
    pub fn get(i: usize) -> (&'static GoalData<VI>, Option<(Lifetime<VI>, Lifetime<VI>)>) {
        unsafe { LOG[i].unwrap() }
    }
}

pub fn arena_reset() {
    arena::reset()
}

pub fn ty(kind: TyKind<VI>) -> Ty<VI> {
    kind.intern(I)
}
pub fn foreign(id: u64) -> Ty<VI> {
    ty(TyKind::Foreign(ForeignDefId(did(id))))
}
pub fn lt(data: LifetimeData<VI>) -> Lifetime<VI> {
    data.intern(I)
}
pub fn ga_ty(t: Ty<VI>) -> GenericArg<VI> {
    GenericArg::new(I, GenericArgData::Ty(t))
}
pub fn ga_lt(l: Lifetime<VI>) -> GenericArg<VI> {
    GenericArg::new(I, GenericArgData::Lifetime(l))
}
pub fn ga_const(c: Const<VI>) -> GenericArg<VI> {
    GenericArg::new(I, GenericArgData::Const(c))
}
pub fn subst(args: &[GenericArg<VI>]) -> Substitution<VI> {
    Substitution::from_iter(I, args.iter().copied())
}

/// A `UnificationDatabase` whose variance tables are all-invariant lists of length `MAX_LIST`.
#[derive(Debug)]
pub struct InvariantDb;
impl UnificationDatabase<VI> for InvariantDb {
    fn fn_def_variance(&self, _fn_def_id: FnDefId<VI>) -> Variances<VI> {
        Variances::from_iter(I, std::iter::repeat(Variance::Invariant).take(MAX_LIST))
    }
    fn adt_variance(&self, _adt_id: AdtId<VI>) -> Variances<VI> {
        Variances::from_iter(I, std::iter::repeat(Variance::Invariant).take(MAX_LIST))
    }
}

#[cfg(test)]
mod tests {
    use super::*;

    #[test]
    fn ty_is_a_newtype_of_r() {
        assert_eq!(
            std::mem::size_of::<Ty<VI>>(),
            std::mem::size_of::<R<TyData<VI>>>()
        );
        let t = I.intern_ty_with_flags(TyKind::Foreign(ForeignDefId(7)), TypeFlags::HAS_ERROR);
        assert_eq!(t.data(I).flags, TypeFlags::HAS_ERROR);
        assert_eq!(*t.kind(I), TyKind::Foreign(ForeignDefId(7)));
    }

    #[test]
    fn structural_equality() {
        let a = ty(TyKind::Slice(foreign(1)));
        let b = ty(TyKind::Slice(foreign(1)));
        let c = ty(TyKind::Slice(foreign(2)));
        assert_eq!(a, b);
        assert_ne!(a, c);
        let s1 = subst(&[ga_ty(a), ga_lt(lt(LifetimeData::Static))]);
        let s2 = subst(&[ga_ty(b), ga_lt(lt(LifetimeData::Static))]);
        assert_eq!(s1, s2);
    }
}

/// Declares a dual-use harness: a `#[kani::proof]` under Kani, and natively a `#[test]` that
/// replays the input recorded in the file named by `VERIF_REPLAY` (and does nothing without it).
#[macro_export]
macro_rules! vharness {
    ($name:ident, $unwind:expr, $body:block) => {
        #[cfg_attr(kani, kani::proof)]
        #[cfg_attr(kani, kani::unwind($unwind))]
        #[cfg_attr(not(kani), test)]
        pub fn $name() {
            if !$crate::sym::replay_begin() {
                return;
            }
            $body
        }
    };
}

/// Harness declaration for *shadow* crates: a `#[kani::proof]` under Kani; natively an
/// unmangled function that the generated `src/bin/verif_replay.rs` of the shadow calls to replay
/// a recorded input (the shadow's own `cfg(test)` modules need dev-dependencies that are not
/// available there, so `cargo test` cannot be used).
#[macro_export]
macro_rules! sharness {
    ($name:ident, $unwind:expr, $body:block) => {
        #[cfg_attr(kani, kani::proof)]
        #[cfg_attr(kani, kani::unwind($unwind))]
        #[cfg_attr(not(kani), no_mangle)]
        pub fn $name() {
            if !$crate::sym::replay_begin() {
                return;
            }
            $body
        }
    };
}
