//! Symbolic term builders shared by the harnesses.
//!
//! Rule (DESIGN.md §2.2): the *number* of interning operations on every path is concrete (bump
//! counters stay concrete); what is symbolic is the data written into the arena slots — ids,
//! indices, mutabilities, scalar kinds, and for leaves even the constructor tag.

use crate::sym;
use crate::*;
use chalk_ir::*;

pub fn sym_mutability() -> Mutability {
    if sym::bool() {
        Mutability::Mut
    } else {
        Mutability::Not
    }
}

pub fn sym_safety() -> Safety {
    if sym::bool() {
        Safety::Safe
    } else {
        Safety::Unsafe
    }
}

pub fn sym_abi() -> VAbi {
    if sym::bool() {
        VAbi::RUST
    } else {
        VAbi::C
    }
}

pub fn sym_int_ty() -> IntTy {
    match sym::below(6) {
        0 => IntTy::Isize,
        1 => IntTy::I8,
        2 => IntTy::I16,
        3 => IntTy::I32,
        4 => IntTy::I64,
        _ => IntTy::I128,
    }
}

pub fn sym_uint_ty() -> UintTy {
    match sym::below(6) {
        0 => UintTy::Usize,
        1 => UintTy::U8,
        2 => UintTy::U16,
        3 => UintTy::U32,
        4 => UintTy::U64,
        _ => UintTy::U128,
    }
}

pub fn sym_float_ty() -> FloatTy {
    match sym::below(4) {
        0 => FloatTy::F16,
        1 => FloatTy::F32,
        2 => FloatTy::F64,
        _ => FloatTy::F128,
    }
}

pub fn sym_scalar() -> Scalar {
    let i = sym_int_ty();
    let u = sym_uint_ty();
    let f = sym_float_ty();
    match sym::below(5) {
        0 => Scalar::Bool,
        1 => Scalar::Char,
        2 => Scalar::Int(i),
        3 => Scalar::Uint(u),
        _ => Scalar::Float(f),
    }
}

pub fn sym_ty_var_kind() -> TyVariableKind {
    match sym::below(3) {
        0 => TyVariableKind::General,
        1 => TyVariableKind::Integer,
        _ => TyVariableKind::Float,
    }
}

pub fn sym_variance() -> Variance {
    match sym::below(3) {
        0 => Variance::Covariant,
        1 => Variance::Invariant,
        _ => Variance::Contravariant,
    }
}

pub fn sym_universe() -> UniverseIndex {
    UniverseIndex {
        counter: sym::usize(),
    }
}

pub fn sym_placeholder() -> PlaceholderIndex {
    PlaceholderIndex {
        ui: sym_universe(),
        idx: sym::usize(),
    }
}

pub fn sym_debruijn() -> DebruijnIndex {
    DebruijnIndex::new(sym::u32())
}

pub fn sym_bound_var() -> BoundVar {
    BoundVar::new(sym_debruijn(), sym::usize())
}

pub fn sym_inference_var() -> InferenceVar {
    InferenceVar::from(sym::u32())
}

/// A lifetime of arbitrary kind with arbitrary payload.
pub fn sym_lifetime() -> Lifetime<VI> {
    let bv = sym_bound_var();
    let iv = sym_inference_var();
    let ph = sym_placeholder();
    let data = match sym::below(6) {
        0 => LifetimeData::BoundVar(bv),
        1 => LifetimeData::InferenceVar(iv),
        2 => LifetimeData::Placeholder(ph),
        3 => LifetimeData::Static,
        4 => LifetimeData::Erased,
        _ => LifetimeData::Error,
    };
    lt(data)
}

/// Number of leaf kinds `mk_leaf` knows.
pub const N_LEAF_KINDS: usize = 9;
pub const LEAVES: [&str; N_LEAF_KINDS] = [
    "Foreign",
    "Scalar",
    "Placeholder",
    "InferenceVar",
    "BoundVar",
    "Error",
    "Str",
    "Never",
    "AliasProjection0",
];

/// A *leaf* type (no type children) of kind `LEAVES[tag]` — `tag` must be concrete — with
/// arbitrary symbolic payload. Exactly one type (and, for the alias leaf, one empty argument
/// list) is interned.
///
/// Leaf *tags* are never symbolic: a `TyKind` whose discriminant is symbolic makes CBMC walk
/// every arm of every `match` on it, including the recursive list-carrying arms, with
/// unconstrained data (measured: `could_match` on two symbolic-tag leaves DNF at 10 min).
pub fn mk_leaf(tag: usize) -> Ty<VI> {
    let kind = match tag {
        0 => TyKind::Foreign(ForeignDefId(did(sym::u64()))),
        1 => TyKind::Scalar(sym_scalar()),
        2 => TyKind::Placeholder(sym_placeholder()),
        3 => TyKind::InferenceVar(sym_inference_var(), sym_ty_var_kind()),
        4 => TyKind::BoundVar(sym_bound_var()),
        5 => TyKind::Error,
        6 => TyKind::Str,
        7 => TyKind::Never,
        8 => TyKind::Alias(AliasTy::Projection(ProjectionTy {
            associated_ty_id: AssocTypeId(did(sym::u64())),
            substitution: Substitution::empty(I),
        })),
        _ => unreachable!(),
    };
    ty(kind)
}

/// A ground opaque leaf `Foreign(id)`, id symbolic.
pub fn sym_foreign() -> Ty<VI> {
    foreign(sym::u64())
}

/// A constant of arbitrary value kind whose type is the given leaf.
pub fn sym_const(ty: Ty<VI>) -> Const<VI> {
    let bv = sym_bound_var();
    let iv = sym_inference_var();
    let ph = sym_placeholder();
    let cc = sym::u64();
    let value = match sym::below(4) {
        0 => ConstValue::BoundVar(bv),
        1 => ConstValue::InferenceVar(iv),
        2 => ConstValue::Placeholder(ph),
        _ => ConstValue::Concrete(ConcreteConst { interned: cc }),
    };
    ConstData { ty, value }.intern(I)
}

/// Names of the 23 `TyKind` constructors, in the order used by `mk_top`.
pub const TOPS: [&str; 23] = [
    "Adt",
    "AssociatedType",
    "Scalar",
    "Tuple",
    "Array",
    "Slice",
    "Raw",
    "Ref",
    "OpaqueType",
    "FnDef",
    "Str",
    "Never",
    "Closure",
    "Coroutine",
    "CoroutineWitness",
    "Foreign",
    "Error",
    "Placeholder",
    "Dyn",
    "Alias",
    "Function",
    "BoundVar",
    "InferenceVar",
];

/// Children handed to `mk_top`: two type children, one lifetime, one const. Constructors use
/// the prefix they need (argument lists are `[ty c0, ty c1]`, or `[ty c0, lifetime, ty c1]`
/// when `with_lifetime_arg`).
#[derive(Copy, Clone)]
pub struct Kids {
    pub c0: Ty<VI>,
    pub c1: Ty<VI>,
    pub l: Lifetime<VI>,
    pub k: Const<VI>,
    /// put the lifetime into argument lists as well
    pub with_lifetime_arg: bool,
    /// put the const into argument lists as well (after the lifetime)
    pub with_const_arg: bool,
}

impl Kids {
    pub fn args(&self) -> Substitution<VI> {
        match (self.with_lifetime_arg, self.with_const_arg) {
            (true, true) => subst(&[ga_ty(self.c0), ga_lt(self.l), ga_const(self.k), ga_ty(self.c1)]),
            (true, false) => subst(&[ga_ty(self.c0), ga_lt(self.l), ga_ty(self.c1)]),
            (false, true) => subst(&[ga_ty(self.c0), ga_const(self.k), ga_ty(self.c1)]),
            (false, false) => subst(&[ga_ty(self.c0), ga_ty(self.c1)]),
        }
    }
}

/// Build a type whose top constructor is `TOPS[k]` (k concrete), with symbolic ids /
/// mutabilities / scalars and the given children.
pub fn mk_top(k: usize, kids: &Kids) -> Ty<VI> {
    let id = sym::u64();
    let kind = match k {
        0 /* Adt */ => TyKind::Adt(adt_id(id), kids.args()),
        1 /* AssociatedType */ => TyKind::AssociatedType(AssocTypeId(did(id)), kids.args()),
        2 /* Scalar */ => TyKind::Scalar(sym_scalar()),
        3 /* Tuple */ => {
            let s = kids.args();
            TyKind::Tuple(s.len(I), s)
        }
        4 /* Array */ => TyKind::Array(kids.c0, kids.k),
        5 /* Slice */ => TyKind::Slice(kids.c0),
        6 /* Raw */ => TyKind::Raw(sym_mutability(), kids.c0),
        7 /* Ref */ => TyKind::Ref(sym_mutability(), kids.l, kids.c0),
        8 /* OpaqueType */ => TyKind::OpaqueType(OpaqueTyId(did(id)), kids.args()),
        9 /* FnDef */ => TyKind::FnDef(FnDefId(did(id)), kids.args()),
        10 /* Str */ => TyKind::Str,
        11 /* Never */ => TyKind::Never,
        12 /* Closure */ => TyKind::Closure(ClosureId(did(id)), kids.args()),
        13 /* Coroutine */ => TyKind::Coroutine(CoroutineId(did(id)), kids.args()),
        14 /* CoroutineWitness */ => TyKind::CoroutineWitness(CoroutineId(did(id)), kids.args()),
        15 /* Foreign */ => TyKind::Foreign(ForeignDefId(did(id))),
        16 /* Error */ => TyKind::Error,
        17 /* Placeholder */ => TyKind::Placeholder(sym_placeholder()),
        18 /* Dyn */ => {
            // dyn (Trait<id><c0> + 'l): one Implemented bound, Self = ^0.0
            let self_ty = ty(TyKind::BoundVar(BoundVar::new(DebruijnIndex::INNERMOST, 0)));
            let tr = TraitRef {
                trait_id: TraitId(did(id)),
                substitution: subst(&[ga_ty(self_ty), ga_ty(kids.c0)]),
            };
            let qwc: QuantifiedWhereClause<VI> =
                Binders::empty(I, WhereClause::Implemented(tr));
            let bounds = Binders::new(
                VariableKinds::from1(I, VariableKind::Ty(TyVariableKind::General)),
                QuantifiedWhereClauses::from1(I, qwc),
            );
            TyKind::Dyn(DynTy {
                bounds,
                lifetime: kids.l,
            })
        }
        19 /* Alias */ => {
            let args = kids.args();
            if sym::bool() {
                TyKind::Alias(AliasTy::Projection(ProjectionTy {
                    associated_ty_id: AssocTypeId(did(id)),
                    substitution: args,
                }))
            } else {
                TyKind::Alias(AliasTy::Opaque(OpaqueTy {
                    opaque_ty_id: OpaqueTyId(did(id)),
                    substitution: args,
                }))
            }
        }
        20 /* Function */ => TyKind::Function(FnPointer {
            num_binders: 0,
            sig: FnSig {
                abi: sym_abi(),
                safety: sym_safety(),
                variadic: sym::bool(),
            },
            substitution: FnSubst(kids.args()),
        }),
        21 /* BoundVar */ => TyKind::BoundVar(sym_bound_var()),
        22 /* InferenceVar */ => TyKind::InferenceVar(sym_inference_var(), sym_ty_var_kind()),
        _ => unreachable!(),
    };
    ty(kind)
}
