//! C27 — in-place folding (`fallible_map_vec`, `fallible_map_box`; chalk-ir/src/fold/in_place.rs,
//! `pub(super)`; this module is appended to a copy of that file) is memory-safe at every failure
//! point of the *error* mode: every element is dropped exactly once, nothing is dropped on
//! success before the result is, and CBMC's pointer / deallocation checks are discharged.
//!
//! Symbolic: the vector length (0..=4), the index at which the map fails (or never), the ids.
//! Drops are counted per element id in a static table.
//! Outside the claim: the panic mode (Kani models a panic as termination, no unwinding).

use super::*;

#[path = "/verif/harness/vinterner/src/sym.rs"]
mod sym;

macro_rules! vharness {
    ($name:ident, $unwind:expr, $body:block) => {
        #[cfg_attr(kani, kani::proof)]
        #[cfg_attr(kani, kani::unwind($unwind))]
        #[cfg_attr(not(kani), no_mangle)]
        pub fn $name() {
            if !sym::replay_begin() {
                return;
            }
            $body
        }
    };
}

const MAXN: usize = 4;
static mut DROPS: [u8; 2 * MAXN + 2] = [0; 2 * MAXN + 2];

fn drops(id: u8) -> u8 {
    unsafe { DROPS[id as usize] }
}
fn reset() {
    unsafe {
        DROPS = [0; 2 * MAXN + 2];
    }
}

/// element before mapping: id in 0..MAXN
struct T1(u8);
impl Drop for T1 {
    fn drop(&mut self) {
        unsafe { DROPS[self.0 as usize] += 1 }
    }
}
/// element after mapping, same layout as T1: id MAXN + original id
struct U1(u8);
impl Drop for U1 {
    fn drop(&mut self) {
        unsafe { DROPS[self.0 as usize] += 1 }
    }
}
/// element after mapping, different layout
struct UBig(u32, u8);
impl Drop for UBig {
    fn drop(&mut self) {
        unsafe { DROPS[self.1 as usize] += 1 }
    }
}
/// zero-sized element (drops counted in slot 2*MAXN)
struct Z;
impl Drop for Z {
    fn drop(&mut self) {
        unsafe { DROPS[2 * MAXN] += 1 }
    }
}

fn mk_vec(n: usize, extra_cap: usize) -> Vec<T1> {
    let mut v = Vec::with_capacity(MAXN + extra_cap);
    let mut i = 0;
    while i < n {
        v.push(T1(i as u8));
        i += 1;
    }
    v
}

/// Checks shared by the vector harnesses, after the call returned `r` (already dropped if Ok).
fn check_counts(n: usize, fail_at: usize, failed: bool) {
    let mut i = 0;
    while i < MAXN {
        let orig = drops(i as u8);
        let mapped = drops((MAXN + i) as u8);
        if i >= n {
            assert!(orig == 0 && mapped == 0);
        } else if !failed {
            // success: every element was mapped (consumed, not dropped) and its image dropped once
            // when the result vector was dropped
            assert!(orig == 0, "C27: an original element was dropped although the map succeeded");
            assert!(mapped == 1, "C27: a mapped element was not dropped exactly once");
        } else if i < fail_at {
            assert!(orig == 0, "C27: a consumed element was dropped again");
            assert!(mapped == 1, "C27: a mapped element was not dropped exactly once after the error");
        } else {
            // the failing element is dropped by the map itself, the later ones by the guard
            assert!(orig == 1, "C27: an element was not dropped exactly once after the error");
            assert!(mapped == 0);
        }
        i += 1;
    }
}

// same type in and out (the TypeFoldable for Vec<T> case)
vharness!(c27_q_vec_same_type, 7, {
    reset();
    let n = sym::usize();
    sym::assume(n <= MAXN);
    let fail_at = sym::usize();
    let v = mk_vec(n, 0);
    let mut calls = 0usize;
    let r: Result<Vec<T1>, ()> = fallible_map_vec(v, |t: T1| {
        let i = calls;
        calls += 1;
        if i == fail_at {
            Err(()) // `t` dropped here
        } else {
            let id = t.0;
            std::mem::forget(t);
            Ok(T1(MAXN as u8 + id))
        }
    });
    let failed = r.is_err();
    assert!(failed == (fail_at < n));
    if let Ok(out) = &r {
        assert!(out.len() == n);
        let mut i = 0;
        while i < n {
            assert!(out[i].0 == (MAXN + i) as u8, "C27: result order / contents");
            // nothing dropped before the result is
            assert!(drops(i as u8) == 0 && drops((MAXN + i) as u8) == 0);
            i += 1;
        }
    }
    drop(r);
    check_counts(n, fail_at, failed);
    crate::cover!(failed && fail_at == 0);
    crate::cover!(failed && fail_at + 1 == n && n == MAXN);
    crate::cover!(!failed && n == MAXN);
    crate::cover!(n == 0);
});

// different types of identical layout (in-place path), with and without spare capacity
fn same_layout(extra: usize) {
    reset();
    let n = sym::usize();
    sym::assume(n <= MAXN);
    let fail_at = sym::usize();
    let v = mk_vec(n, extra);
    let mut calls = 0usize;
    let r: Result<Vec<U1>, ()> = fallible_map_vec(v, |t: T1| {
        let i = calls;
        calls += 1;
        if i == fail_at {
            Err(())
        } else {
            let id = t.0;
            std::mem::forget(t);
            Ok(U1(MAXN as u8 + id))
        }
    });
    let failed = r.is_err();
    assert!(failed == (fail_at < n));
    if let Ok(out) = &r {
        assert!(out.len() == n);
        // the result owns the original allocation: it must record that allocation's capacity
        // (it is freed with a layout computed from it)
        assert!(out.capacity() == MAXN + extra, "C27: the mapped vector records a wrong capacity for its allocation");
    }
    drop(r);
    check_counts(n, fail_at, failed);
    crate::cover!(failed && fail_at > 0 && fail_at + 1 < n);
    crate::cover!(!failed && n > 0);
}
vharness!(c27_q_vec_same_layout_exact_capacity, 7, { same_layout(0) });
vharness!(c27_q_vec_same_layout_spare_capacity, 7, { same_layout(2) });

// different layout (collect path)
vharness!(c27_q_vec_other_layout, 7, {
    reset();
    let n = sym::usize();
    sym::assume(n <= MAXN);
    let fail_at = sym::usize();
    let v = mk_vec(n, 0);
    let mut calls = 0usize;
    let r: Result<Vec<UBig>, ()> = fallible_map_vec(v, |t: T1| {
        let i = calls;
        calls += 1;
        if i == fail_at {
            Err(())
        } else {
            let id = t.0;
            std::mem::forget(t);
            Ok(UBig(7, MAXN as u8 + id))
        }
    });
    let failed = r.is_err();
    assert!(failed == (fail_at < n));
    drop(r);
    check_counts(n, fail_at, failed);
    crate::cover!(failed);
    crate::cover!(!failed && n > 0);
});

// zero-sized elements
vharness!(c27_t_vec_zst, 7, {
    reset();
    let n = sym::usize();
    sym::assume(n <= MAXN);
    let fail_at = sym::usize();
    let mut v = Vec::new();
    let mut i = 0;
    while i < n {
        v.push(Z);
        i += 1;
    }
    let mut calls = 0usize;
    let r: Result<Vec<Z>, ()> = fallible_map_vec(v, |z: Z| {
        let i = calls;
        calls += 1;
        if i == fail_at {
            Err(())
        } else {
            Ok(z)
        }
    });
    let failed = r.is_err();
    drop(r);
    // every zero-sized element is dropped exactly once in total
    assert!(drops(2 * MAXN as u8) as usize == n, "C27: ZST drop count");
    crate::cover!(failed);
    crate::cover!(!failed && n > 0);
});

// boxes: identical layout (in place) and different layout
vharness!(c27_q_box_same_layout, 4, {
    reset();
    let fail = sym::bool();
    let b = Box::new(T1(0));
    let r: Result<Box<U1>, ()> = fallible_map_box(b, |t: T1| {
        if fail {
            Err(())
        } else {
            std::mem::forget(t);
            Ok(U1(MAXN as u8))
        }
    });
    if let Ok(x) = &r {
        assert!(x.0 == MAXN as u8);
        assert!(drops(0) == 0 && drops(MAXN as u8) == 0);
    }
    drop(r);
    if fail {
        assert!(drops(0) == 1 && drops(MAXN as u8) == 0, "C27: box error path");
    } else {
        assert!(drops(0) == 0 && drops(MAXN as u8) == 1, "C27: box success path");
    }
    crate::cover!(fail);
    crate::cover!(!fail);
});
vharness!(c27_t_box_other_layout, 4, {
    reset();
    let fail = sym::bool();
    let b = Box::new(T1(0));
    let r: Result<Box<UBig>, ()> = fallible_map_box(b, |t: T1| {
        if fail {
            Err(())
        } else {
            std::mem::forget(t);
            Ok(UBig(1, MAXN as u8))
        }
    });
    drop(r);
    if fail {
        assert!(drops(0) == 1 && drops(MAXN as u8) == 0);
    } else {
        assert!(drops(0) == 0 && drops(MAXN as u8) == 1);
    }
    crate::cover!(fail);
    crate::cover!(!fail);
});
